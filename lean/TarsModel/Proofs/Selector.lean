/-
  Helper lemmas for C13: invariants of the selector state machines over all histories, the
  abstract "current set", rotation windows.
-/
import TarsModel.Model.Selector
import TarsModel.Proofs.WeightBuild
import TarsModel.Proofs.WeightRotation
import Mathlib.Data.List.Rotate

namespace Tars.Sel

/-! ### the current set, specified without the selectors' bookkeeping -/

/-- `Add` on the abstract set: an endpoint whose host is already present is refused -/
def specAdd (cur : List Ep) (ep : Ep) : List Ep :=
  if cur.any (fun e => e.host == ep.host) then cur else cur ++ [ep]

/-- The current set after one operation (endpoints are identified by host; the first endpoint given
for a host stays until that host is removed). -/
def specStep (cur : List Ep) : Op → List Ep
  | .refresh eps _ _ => eps.foldl specAdd []
  | .add ep _ _ => specAdd cur ep
  | .remove ep _ _ => cur.filter (fun e => e.host != ep.host)
  | .select _ => cur

/-- the current set after a history -/
def currentSet (ops : List Op) : List Ep := ops.foldl specStep []

/-- the list the selector cycles through for a given set -/
def cacheOf (v : Variant) (ew : Bool) (eps : List Ep) : List Nat :=
  if ew then
    match buildStaticWeightList v eps with
    | .ok _ l => l
    | _ => []
  else []

/-! ### invariant -/

structure WF (v : Variant) (s : State) : Prop where
  hmap : ∀ h, h ∈ s.mapValues ↔ ∃ e ∈ s.endpoints, e.host = h
  hnd : (s.endpoints.map (·.host)).Nodup
  hmnd : s.mapValues.Nodup
  hcache : s.cache = cacheOf v s.enableWeight s.endpoints

theorem cacheOf_valid (v : Variant) (ew : Bool) (eps : List Ep) : ∀ i ∈ cacheOf v ew eps, i < eps.length := by
  unfold cacheOf
  split
  · split
    · rename_i h; exact build_ok_mem h
    · simp
  · simp

theorem WF.cacheValid {v : Variant} {s : State} (h : WF v s) : ∀ i ∈ s.cache, i < s.endpoints.length := by
  rw [h.hcache]; exact cacheOf_valid _ _ _

theorem cacheOf_nil_eps (v : Variant) (ew : Bool) : cacheOf v ew [] = [] := by
  have := cacheOf_valid v ew []
  cases h : cacheOf v ew [] with
  | nil => rfl
  | cons a l => have := this a (by simp [h]); simp at this

theorem WF.new (v : Variant) (k : Kind) (ew : Bool) : WF v (State.new k ew) where
  hmap := by simp [State.new]
  hnd := by simp [State.new]
  hmnd := by simp [State.new]
  hcache := by simp [State.new, cacheOf_nil_eps]

/-! ### the update operations -/

theorem any_host_iff (l : List Ep) (h : List Nat) :
    l.any (fun e => e.host == h) = true ↔ ∃ e ∈ l, e.host = h := by
  simp [List.any_eq_true]

/-- the part of the invariant that does not concern the cache -/
structure CW (s : State) : Prop where
  hmap : ∀ h, h ∈ s.mapValues ↔ ∃ e ∈ s.endpoints, e.host = h
  hnd : (s.endpoints.map (·.host)).Nodup
  hmnd : s.mapValues.Nodup

theorem WF.cw {v : Variant} {s : State} (h : WF v s) : CW s := ⟨h.hmap, h.hnd, h.hmnd⟩

theorem addLocked_none {s : State} (hs : CW s) (ep : Ep) :
    addLocked s ep = none ↔ (s.endpoints.any fun e => e.host == ep.host) = true := by
  unfold addLocked
  rw [any_host_iff, ← hs.hmap]
  simp [Ep.hashKey]

theorem addLocked_some {s s' : State} (hs : CW s) {ep : Ep} (h : addLocked s ep = some s') :
    CW s' ∧ s'.endpoints = s.endpoints ++ [ep] ∧ s'.kind = s.kind ∧ s'.enableWeight = s.enableWeight ∧
      (s.endpoints.any fun e => e.host == ep.host) = false := by
  have hnone : ¬ addLocked s ep = none := by rw [h]; simp
  rw [addLocked_none hs] at hnone
  have hnotin : ¬ ∃ e ∈ s.endpoints, e.host = ep.host := by rwa [any_host_iff] at hnone
  have hnm : ep.host ∉ s.mapValues := by rw [hs.hmap]; exact hnotin
  unfold addLocked at h
  have : s.mapValues.contains ep.hashKey = false := by
    simp [Ep.hashKey, hnm]
  simp only [this, Bool.false_eq_true, ↓reduceIte, Option.some.injEq] at h
  subst h
  refine ⟨⟨?_, ?_, ?_⟩, rfl, rfl, rfl, by simpa using hnone⟩
  · intro x
    simp only [Ep.hashKey, List.mem_cons, List.mem_append, hs.hmap]
    constructor
    · rintro (h | ⟨e, he, hx⟩)
      · exact ⟨ep, Or.inr (by simp), h.symm⟩
      · exact ⟨e, Or.inl he, hx⟩
    · rintro ⟨e, he | he, hx⟩
      · exact Or.inr ⟨e, he, hx⟩
      · simp only [List.not_mem_nil, or_false] at he
        subst he; exact Or.inl hx.symm
  · simp only [List.map_append, List.map_cons, List.map_nil]
    rw [List.nodup_append]
    refine ⟨hs.hnd, by simp, ?_⟩
    intro a ha b hb
    simp only [List.mem_singleton] at hb
    subst hb
    intro e
    subst e
    obtain ⟨e, he, hx⟩ := List.mem_map.1 ha
    exact hnotin ⟨e, he, hx⟩
  · simp only [Ep.hashKey, List.nodup_cons]
    exact ⟨hnm, hs.hmnd⟩

theorem specAdd_of_addLocked {s : State} (hs : CW s) (ep : Ep) :
    (match addLocked s ep with | none => s.endpoints | some s' => s'.endpoints) = specAdd s.endpoints ep := by
  cases h : addLocked s ep with
  | none =>
    have := (addLocked_none hs ep).1 h
    simp [specAdd, this]
  | some s' =>
    obtain ⟨_, e, _, _, hf⟩ := addLocked_some hs h
    simp [specAdd, hf, e]

theorem refreshAdd_spec : ∀ (eps : List Ep) (s : State), CW s →
    CW (refreshAdd s eps) ∧ (refreshAdd s eps).endpoints = eps.foldl specAdd s.endpoints ∧
      (refreshAdd s eps).kind = s.kind ∧ (refreshAdd s eps).enableWeight = s.enableWeight
  | [], s, hs => ⟨hs, rfl, rfl, rfl⟩
  | e :: es, s, hs => by
    simp only [refreshAdd, List.foldl_cons]
    cases h : addLocked s e with
    | none =>
      have := (addLocked_none hs e).1 h
      simp only [Option.getD_none]
      have hsa : specAdd s.endpoints e = s.endpoints := by simp [specAdd, this]
      rw [hsa]
      exact refreshAdd_spec es s hs
    | some s' =>
      obtain ⟨hs', e1, e2, e3, hf⟩ := addLocked_some hs h
      simp only [Option.getD_some]
      have hsa : specAdd s.endpoints e = s'.endpoints := by simp [specAdd, hf, e1]
      rw [hsa, ← e2, ← e3]
      exact refreshAdd_spec es s' hs'

theorem removeFirst_eq_filter : ∀ (l : List Ep) (h : List Nat), (l.map (·.host)).Nodup →
    removeFirst h l = l.filter (fun e => e.host != h)
  | [], _, _ => rfl
  | e :: es, h, hnd => by
    simp only [List.map_cons, List.nodup_cons] at hnd
    simp only [removeFirst, Ep.hashKey]
    by_cases he : e.host = h
    · subst he
      have : es.filter (fun x => x.host != e.host) = es := by
        rw [List.filter_eq_self]
        intro a ha
        have : a.host ≠ e.host := fun e' => hnd.1 (List.mem_map.2 ⟨a, ha, e'⟩)
        simpa using this
      simp [this]
    · have ih := removeFirst_eq_filter es h hnd.2
      simp [he, ih]

theorem reBuild_fields (v : Variant) (s : State) (r1 r2 : Nat) :
    (reBuildLocked v s r1 r2).1.endpoints = s.endpoints ∧ (reBuildLocked v s r1 r2).1.mapValues = s.mapValues ∧
    (reBuildLocked v s r1 r2).1.kind = s.kind ∧ (reBuildLocked v s r1 r2).1.enableWeight = s.enableWeight := by
  unfold reBuildLocked
  cases hk : s.kind <;> cases hew : s.enableWeight <;> simp only [Bool.false_eq_true, ↓reduceIte] <;>
    (try split) <;> simp_all

theorem reBuild_cache (v : Variant) (s : State) (r1 r2 : Nat) :
    (reBuildLocked v s r1 r2).1.cache = cacheOf v s.enableWeight s.endpoints := by
  unfold reBuildLocked cacheOf
  cases hk : s.kind <;> cases hew : s.enableWeight <;> simp only [Bool.false_eq_true, ↓reduceIte] <;>
    (try split) <;> simp_all

theorem reBuild_res (v : Variant) (s : State) (r1 r2 : Nat) :
    (reBuildLocked v s r1 r2).2 = .done ∨
        ∃ site, (reBuildLocked v s r1 r2).2 = .panic site ∧ s.enableWeight = true ∧
          buildStaticWeightList v s.endpoints = .panic site := by
  unfold reBuildLocked
  cases hk : s.kind <;> cases hew : s.enableWeight <;> simp only [Bool.false_eq_true, ↓reduceIte] <;>
    (try split) <;> simp_all

theorem reBuildLocked_spec (v : Variant) {s : State} (hs : CW s) (r1 r2 : Nat) :
    WF v (reBuildLocked v s r1 r2).1 ∧ (reBuildLocked v s r1 r2).1.endpoints = s.endpoints ∧
      (reBuildLocked v s r1 r2).1.kind = s.kind ∧
      (reBuildLocked v s r1 r2).1.enableWeight = s.enableWeight ∧
      ((reBuildLocked v s r1 r2).2 = .done ∨
        ∃ site, (reBuildLocked v s r1 r2).2 = .panic site ∧ s.enableWeight = true ∧
          buildStaticWeightList v s.endpoints = .panic site) := by
  obtain ⟨e1, e2, e3, e4⟩ := reBuild_fields v s r1 r2
  refine ⟨⟨?_, ?_, ?_, ?_⟩, e1, e3, e4, reBuild_res v s r1 r2⟩
  · rw [e1, e2]; exact hs.hmap
  · rw [e1]; exact hs.hnd
  · rw [e2]; exact hs.hmnd
  · rw [reBuild_cache, e1, e4]

/-! ### selection -/

theorem pickDirect_eq {eps : List Ep} (h : 0 < eps.length) (pos : Nat) :
    pickDirect eps pos = .selected (eps[pos % eps.length]'(Nat.mod_lt _ h)) := by
  unfold pickDirect index
  have : pos % eps.length < eps.length := Nat.mod_lt _ h
  simp [List.getElem?_eq_getElem this]

/-- what `pickCached` does with one element of the cache -/
def pickIdx (eps : List Ep) (i : Nat) : Res :=
  match eps[i]? with
  | some ep => .selected ep
  | none => .panic "index out of range"

theorem pickCached_eq {eps : List Ep} {l : List Nat} (h : 0 < l.length) (pos : Nat) :
    pickCached eps l pos = pickIdx eps (l[pos % l.length]'(Nat.mod_lt _ h)) := by
  unfold pickCached index pickIdx
  have : pos % l.length < l.length := Nat.mod_lt _ h
  simp only [List.getElem?_eq_getElem this]
  cases eps[l[pos % l.length]]? <;> rfl

theorem pickIdx_valid {eps : List Ep} {i : Nat} (h : i < eps.length) : pickIdx eps i = .selected eps[i] := by
  simp [pickIdx, List.getElem?_eq_getElem h]

/-- the result of a selection is a member, or the error when the set is empty; never a panic -/
def GoodSel (eps : List Ep) (r : Res) : Prop :=
  (eps = [] ∧ r = .err) ∨ (eps ≠ [] ∧ ∃ ep ∈ eps, r = .selected ep)

theorem pickDirect_good {eps : List Ep} (h : eps ≠ []) (pos : Nat) : GoodSel eps (pickDirect eps pos) := by
  have hl : 0 < eps.length := List.length_pos_iff.2 h
  rw [pickDirect_eq hl]
  exact Or.inr ⟨h, _, List.getElem_mem _, rfl⟩

theorem pickCached_good {eps : List Ep} {l : List Nat} (h : eps ≠ []) (hl : l.length ≠ 0)
    (hv : ∀ i ∈ l, i < eps.length) (pos : Nat) : GoodSel eps (pickCached eps l pos) := by
  have hl' : 0 < l.length := by omega
  rw [pickCached_eq hl', pickIdx_valid (hv _ (List.getElem_mem _))]
  exact Or.inr ⟨h, _, List.getElem_mem _, rfl⟩

theorem select_fields (s : State) (arg : Nat) :
    (select s arg).1.endpoints = s.endpoints ∧ (select s arg).1.mapValues = s.mapValues ∧
      (select s arg).1.kind = s.kind ∧ (select s arg).1.enableWeight = s.enableWeight ∧
      (select s arg).1.cache = s.cache := by
  unfold select
  split
  · simp
  · cases hk : s.kind <;> simp only <;> split <;> simp_all

theorem select_res {v : Variant} {s : State} (hs : WF v s) (arg : Nat) :
    GoodSel s.endpoints (select s arg).2 := by
  unfold select
  by_cases h0 : s.endpoints.length = 0
  · simp only [h0, ↓reduceIte]
    exact Or.inl ⟨List.eq_nil_of_length_eq_zero h0, rfl⟩
  · have hne : s.endpoints ≠ [] := fun e => h0 (by simp [e])
    simp only [h0, ↓reduceIte]
    cases hk : s.kind <;> simp only
    all_goals
      by_cases hc : s.cache.length = 0
      · simp only [hc, ne_eq, not_true_eq_false, ↓reduceIte]
        exact pickDirect_good hne _
      · simp only [hc, ne_eq, not_false_eq_true, ↓reduceIte]
        exact pickCached_good hne hc hs.cacheValid _

theorem select_spec {v : Variant} {s : State} (hs : WF v s) (arg : Nat) :
    WF v (select s arg).1 ∧ (select s arg).1.endpoints = s.endpoints ∧ (select s arg).1.kind = s.kind ∧
      (select s arg).1.enableWeight = s.enableWeight ∧ (select s arg).1.cache = s.cache ∧
      GoodSel s.endpoints (select s arg).2 := by
  obtain ⟨e1, e2, e3, e4, e5⟩ := select_fields s arg
  refine ⟨⟨?_, ?_, ?_, ?_⟩, e1, e3, e4, e5, select_res hs arg⟩
  · rw [e1, e2]; exact hs.hmap
  · rw [e1]; exact hs.hnd
  · rw [e2]; exact hs.hmnd
  · rw [e5, e4, e1]; exact hs.hcache

/-! ### one step, any history -/

theorem step_spec {v : Variant} {s : State} (hs : WF v s) (op : Op) :
    WF v (step v s op).1 ∧ (step v s op).1.endpoints = specStep s.endpoints op ∧
      (step v s op).1.kind = s.kind ∧ (step v s op).1.enableWeight = s.enableWeight := by
  cases op with
  | refresh eps r1 r2 =>
    simp only [step, specStep]
    have h0 : CW { s with mapValues := [], endpoints := [] } := ⟨by simp, by simp, by simp⟩
    obtain ⟨c1, c2, c3, c4⟩ := refreshAdd_spec eps _ h0
    obtain ⟨d1, d2, d3, d4, _⟩ := reBuildLocked_spec v c1 r1 r2
    exact ⟨d1, by rw [d2, c2], by rw [d3, c3], by rw [d4, c4]⟩
  | add ep r1 r2 =>
    simp only [step, specStep]
    cases h : addLocked s ep with
    | none =>
      have := (addLocked_none hs.cw ep).1 h
      exact ⟨hs, by simp [specAdd, this], rfl, rfl⟩
    | some s' =>
      obtain ⟨c1, c2, c3, c4, hf⟩ := addLocked_some hs.cw h
      obtain ⟨d1, d2, d3, d4, _⟩ := reBuildLocked_spec v c1 r1 r2
      exact ⟨d1, by rw [d2, c2]; simp [specAdd, hf], by rw [d3, c3], by rw [d4, c4]⟩
  | remove ep r1 r2 =>
    simp only [step, specStep]
    by_cases hc : s.mapValues.contains ep.hashKey = true
    · simp only [hc, not_true_eq_false, ↓reduceIte]
      have hcw : CW { s with mapValues := s.mapValues.erase ep.hashKey,
                             endpoints := removeFirst ep.hashKey s.endpoints } := by
        have hf := removeFirst_eq_filter s.endpoints ep.host hs.hnd
        simp only [Ep.hashKey]
        refine ⟨?_, ?_, ?_⟩
        · intro x
          simp only [hf, List.mem_filter, bne_iff_ne, ne_eq]
          rw [hs.hmnd.mem_erase_iff, hs.hmap]
          constructor
          · rintro ⟨hx, e, he, hex⟩
            exact ⟨e, ⟨he, by rw [hex]; exact hx⟩, hex⟩
          · rintro ⟨e, ⟨he, hne⟩, hex⟩
            exact ⟨by rw [← hex]; exact hne, e, he, hex⟩
        · simp only [hf]
          exact (hs.hnd.sublist ((List.filter_sublist).map _))
        · exact hs.hmnd.erase _
      obtain ⟨d1, d2, d3, d4, _⟩ := reBuildLocked_spec v hcw r1 r2
      refine ⟨d1, ?_, d3, d4⟩
      rw [d2]
      exact removeFirst_eq_filter s.endpoints ep.host hs.hnd
    · have hc' : s.mapValues.contains ep.hashKey = false := by simpa using hc
      simp only [hc', Bool.false_eq_true, not_false_eq_true, ↓reduceIte]
      refine ⟨hs, ?_, trivial, trivial⟩
      have hnm : ¬ ∃ e ∈ s.endpoints, e.host = ep.host := by
        rw [← hs.hmap]
        simpa [Ep.hashKey, List.contains_iff_mem] using hc
      symm
      rw [List.filter_eq_self]
      intro a ha
      have : a.host ≠ ep.host := fun e => hnm ⟨a, ha, e⟩
      simpa using this
  | select arg =>
    simp only [step, specStep]
    obtain ⟨c1, c2, c3, c4, _, _⟩ := select_spec hs arg
    exact ⟨c1, c2, c3, c4⟩

theorem run_spec {v : Variant} : ∀ (ops : List Op) (s : State), WF v s →
    WF v (after v s ops) ∧ (after v s ops).endpoints = ops.foldl specStep s.endpoints ∧
      (after v s ops).kind = s.kind ∧ (after v s ops).enableWeight = s.enableWeight
  | [], s, hs => ⟨hs, rfl, rfl, rfl⟩
  | op :: ops, s, hs => by
    obtain ⟨c1, c2, c3, c4⟩ := step_spec hs op
    obtain ⟨d1, d2, d3, d4⟩ := run_spec ops (step v s op).1 c1
    have : after v s (op :: ops) = after v (step v s op).1 ops := by
      simp [after, run]
    rw [this]
    exact ⟨d1, by rw [d2, c2]; rfl, by rw [d3, c3], by rw [d4, c4]⟩

/-- the state reached by a history from `New` -/
theorem reach_spec (v : Variant) (k : Kind) (ew : Bool) (ops : List Op) :
    WF v (after v (State.new k ew) ops) ∧ (after v (State.new k ew) ops).endpoints = currentSet ops ∧
      (after v (State.new k ew) ops).kind = k ∧ (after v (State.new k ew) ops).enableWeight = ew := by
  obtain ⟨a, b, c, d⟩ := run_spec (v := v) ops (State.new k ew) (WF.new v k ew)
  exact ⟨a, b, c, d⟩

/-! ### no panic with the repaired list builder -/

theorem step_repaired_no_panic {s : State} (hs : WF .repaired s) (op : Op) (site : String) :
    (step .repaired s op).2 ≠ .panic site := by
  have hrb : ∀ {s' : State}, CW s' → ∀ r1 r2, (reBuildLocked .repaired s' r1 r2).2 ≠ .panic site := by
    intro s' hs' r1 r2
    rcases (reBuildLocked_spec .repaired hs' r1 r2).2.2.2.2 with h | ⟨st, _, _, hb⟩
    · rw [h]; simp
    · exact absurd hb (build_repaired_no_panic _ _)
  cases op with
  | refresh eps r1 r2 =>
    simp only [step]
    have h0 : CW { s with mapValues := [], endpoints := [] } := ⟨by simp, by simp, by simp⟩
    exact hrb (refreshAdd_spec eps _ h0).1 r1 r2
  | add ep r1 r2 =>
    simp only [step]
    cases h : addLocked s ep with
    | none => simp
    | some s' => exact hrb (addLocked_some hs.cw h).1 r1 r2
  | remove ep r1 r2 =>
    simp only [step]
    by_cases hc : s.mapValues.contains ep.hashKey = true
    · simp only [hc, not_true_eq_false, ↓reduceIte]
      -- the state handed to `reBuildLocked` is the one of `step_spec`
      have hcw : CW { s with mapValues := s.mapValues.erase ep.hashKey,
                             endpoints := removeFirst ep.hashKey s.endpoints } := by
        have hf := removeFirst_eq_filter s.endpoints ep.host hs.hnd
        simp only [Ep.hashKey]
        refine ⟨?_, ?_, ?_⟩
        · intro x
          simp only [hf, List.mem_filter, bne_iff_ne, ne_eq]
          rw [hs.hmnd.mem_erase_iff, hs.hmap]
          constructor
          · rintro ⟨hx, e, he, hex⟩
            exact ⟨e, ⟨he, by rw [hex]; exact hx⟩, hex⟩
          · rintro ⟨e, ⟨he, hne⟩, hex⟩
            exact ⟨by rw [← hex]; exact hne, e, he, hex⟩
        · simp only [hf]
          exact (hs.hnd.sublist ((List.filter_sublist).map _))
        · exact hs.hmnd.erase _
      exact hrb hcw r1 r2
    · have hc' : s.mapValues.contains ep.hashKey = false := by simpa using hc
      simp only [hc', Bool.false_eq_true, not_false_eq_true, ↓reduceIte]
      simp
  | select arg =>
    simp only [step]
    rcases (select_spec hs arg).2.2.2.2.2 with ⟨_, h⟩ | ⟨_, ep, _, h⟩ <;> rw [h] <;> simp

theorem run_results {v : Variant} (P : Res → Prop)
    (hstep : ∀ s, WF v s → ∀ op, P (step v s op).2) :
    ∀ (ops : List Op) (s : State), WF v s → ∀ r ∈ (run v s ops).2, P r
  | [], _, _ => by simp [run]
  | op :: ops, s, hs => by
    intro r hr
    simp only [run, List.mem_cons] at hr
    rcases hr with hr | hr
    · rw [hr]; exact hstep s hs op
    · exact run_results P hstep ops (step v s op).1 (step_spec hs op).1 r hr

/-! ### rotation windows of the round robin -/

theorem run_select_direct {v : Variant} : ∀ (args : List Nat) (s : State), s.kind = .roundRobin →
    s.endpoints ≠ [] → s.cache = [] → s.lastPosition + args.length < uint64Mod →
    (run v s (args.map Op.select)).2
      = (List.range args.length).map (fun j => pickDirect s.endpoints (s.lastPosition + 1 + j))
  | [], _, _, _, _, _ => by simp [run]
  | a :: args, s, hk, hne, hc, hlt => by
    have h0 : ¬ s.endpoints.length = 0 := fun e => hne (List.eq_nil_of_length_eq_zero e)
    have hmod : (s.lastPosition + 1) % uint64Mod = s.lastPosition + 1 := by
      apply Nat.mod_eq_of_lt
      simp only [List.length_cons] at hlt; omega
    have hstep : step v s (.select a)
        = ({ s with lastPosition := s.lastPosition + 1 }, pickDirect s.endpoints (s.lastPosition + 1)) := by
      simp [step, select, h0, hk, hc, hmod]
    have ih := run_select_direct (v := v) args { s with lastPosition := s.lastPosition + 1 } hk hne hc
      (by simp only [List.length_cons] at hlt; simp only; omega)
    simp only [List.map_cons, run, hstep, ih, List.length_cons, List.range_succ_eq_map, List.map_map]
    refine congrArg₂ _ rfl ?_
    apply List.map_congr_left
    intro j _
    simp only [Function.comp, Nat.succ_eq_add_one]
    congr 1
    omega

theorem run_select_cached {v : Variant} : ∀ (args : List Nat) (s : State), s.kind = .roundRobin →
    s.endpoints ≠ [] → s.cache ≠ [] → s.lastStaticWeightPosition + args.length < uint64Mod →
    (run v s (args.map Op.select)).2
      = (List.range args.length).map
          (fun j => pickCached s.endpoints s.cache (s.lastStaticWeightPosition + 1 + j))
  | [], _, _, _, _, _ => by simp [run]
  | a :: args, s, hk, hne, hc, hlt => by
    have h0 : ¬ s.endpoints.length = 0 := fun e => hne (List.eq_nil_of_length_eq_zero e)
    have hc0 : ¬ s.cache.length = 0 := fun e => hc (List.eq_nil_of_length_eq_zero e)
    have hmod : (s.lastStaticWeightPosition + 1) % uint64Mod = s.lastStaticWeightPosition + 1 := by
      apply Nat.mod_eq_of_lt
      simp only [List.length_cons] at hlt; omega
    have hstep : step v s (.select a)
        = ({ s with lastStaticWeightPosition := s.lastStaticWeightPosition + 1 },
            pickCached s.endpoints s.cache (s.lastStaticWeightPosition + 1)) := by
      simp [step, select, h0, hk, hc0, hmod]
    have ih := run_select_cached (v := v) args
      { s with lastStaticWeightPosition := s.lastStaticWeightPosition + 1 } hk hne hc
      (by simp only [List.length_cons] at hlt; simp only; omega)
    simp only [List.map_cons, run, hstep, ih, List.length_cons, List.range_succ_eq_map, List.map_map]
    refine congrArg₂ _ rfl ?_
    apply List.map_congr_left
    intro j _
    simp only [Function.comp, Nat.succ_eq_add_one]
    congr 1
    omega

/-- `n = |l|` consecutive positions, starting anywhere, read a rotation of `l` -/
theorem window_eq_rotate {α β : Type} (l : List α) (h : 0 < l.length) (g : α → β) (a : Nat) :
    (List.range l.length).map (fun j => g (l[(a + j) % l.length]'(Nat.mod_lt _ h)))
      = (l.rotate a).map g := by
  apply List.ext_getElem
  · simp
  · intro j h1 h2
    simp only [List.length_map, List.length_range] at h1
    simp only [List.getElem_map, List.getElem_range, List.getElem_rotate]
    congr 2
    rw [Nat.add_comm]

theorem map_pickIdx_valid (eps : List Ep) : ∀ (l : List Nat), (∀ i ∈ l, i < eps.length) →
    l.map (pickIdx eps) = (l.filterMap (eps[·]?)).map Res.selected
  | [], _ => rfl
  | i :: l, h => by
    have hi := h i (by simp)
    have ih := map_pickIdx_valid eps l (fun j hj => h j (by simp [hj]))
    simp [pickIdx_valid hi, List.getElem?_eq_getElem hi, ih]

theorem filterMap_valid_length (eps : List Ep) : ∀ (l : List Nat), (∀ i ∈ l, i < eps.length) →
    (l.filterMap (eps[·]?)).length = l.length
  | [], _ => rfl
  | i :: l, h => by
    have hi := h i (by simp)
    have ih := filterMap_valid_length eps l (fun j hj => h j (by simp [hj]))
    simp [List.getElem?_eq_getElem hi, ih]

theorem count_filterMap_getElem (eps : List Ep) (hnd : eps.Nodup) (i : Nat) (hi : i < eps.length) :
    ∀ (l : List Nat), (∀ j ∈ l, j < eps.length) → (l.filterMap (eps[·]?)).count eps[i] = l.count i
  | [], _ => rfl
  | j :: l, h => by
    have hj := h j (by simp)
    have ih := count_filterMap_getElem eps hnd i hi l (fun k hk => h k (by simp [hk]))
    simp only [List.filterMap_cons, List.getElem?_eq_getElem hj, List.count_cons, ih]
    congr 1
    have : (eps[j] == eps[i]) = (j == i) := by
      rw [Bool.eq_iff_iff]
      simp only [beq_iff_eq]
      exact hnd.getElem_inj_iff
    rw [this]

theorem nodup_of_hosts {eps : List Ep} (h : (eps.map (·.host)).Nodup) : eps.Nodup :=
  List.Nodup.of_map _ h

/-! ### the abstract set: hosts -/

theorem specAdd_hosts (cur : List Ep) (ep : Ep) (h : List Nat) :
    (∃ e ∈ specAdd cur ep, e.host = h) ↔ ((∃ e ∈ cur, e.host = h) ∨ h = ep.host) := by
  unfold specAdd
  by_cases hc : (cur.any fun e => e.host == ep.host) = true
  · simp only [hc, ↓reduceIte]
    rw [any_host_iff] at hc
    constructor
    · exact fun h => Or.inl h
    · rintro (h | h)
      · exact h
      · subst h; exact hc
  · simp only [hc, Bool.false_eq_true, ↓reduceIte, List.mem_append, List.mem_singleton]
    constructor
    · rintro ⟨e, he | he, hx⟩
      · exact Or.inl ⟨e, he, hx⟩
      · subst he; exact Or.inr hx.symm
    · rintro (⟨e, he, hx⟩ | h)
      · exact ⟨e, Or.inl he, hx⟩
      · exact ⟨ep, Or.inr rfl, h.symm⟩

theorem specAdd_mem (cur : List Ep) (ep e : Ep) (h : e ∈ specAdd cur ep) : e ∈ cur ∨ e = ep := by
  unfold specAdd at h
  split at h
  · exact Or.inl h
  · simpa using h

theorem foldl_specAdd_hosts : ∀ (eps cur : List Ep) (h : List Nat),
    (∃ e ∈ eps.foldl specAdd cur, e.host = h) ↔ ((∃ e ∈ cur, e.host = h) ∨ ∃ e ∈ eps, e.host = h)
  | [], cur, h => by simp
  | x :: xs, cur, h => by
    simp only [List.foldl_cons]
    rw [foldl_specAdd_hosts xs (specAdd cur x) h, specAdd_hosts]
    simp only [List.mem_cons, exists_eq_or_imp]
    constructor
    · rintro ((a | a) | a)
      · exact Or.inl a
      · exact Or.inr (Or.inl a.symm)
      · exact Or.inr (Or.inr a)
    · rintro (a | a | a)
      · exact Or.inl (Or.inl a)
      · exact Or.inl (Or.inr a.symm)
      · exact Or.inr a

theorem foldl_specAdd_mem : ∀ (eps cur : List Ep) (e : Ep), e ∈ eps.foldl specAdd cur → e ∈ cur ∨ e ∈ eps
  | [], _, _, h => Or.inl h
  | x :: xs, cur, e, h => by
    simp only [List.foldl_cons] at h
    rcases foldl_specAdd_mem xs _ e h with h | h
    · rcases specAdd_mem cur x e h with h | h
      · exact Or.inl h
      · exact Or.inr (by simp [h])
    · exact Or.inr (by simp [h])

/-! ### mod hash -/

theorem step_select_modHash {v : Variant} {s : State} (hk : s.kind = .modHash) (h : Nat) :
    step v s (.select h) =
      (s, if s.endpoints.length = 0 then .err
          else if s.cache.length ≠ 0 then pickCached s.endpoints s.cache (h % uint32Mod)
          else pickDirect s.endpoints (h % uint32Mod)) := by
  simp only [step, select, hk]
  split
  · rfl
  · split <;> rfl

theorem step_select_random {v : Variant} {s : State} (hk : s.kind = .random) (c : Nat) :
    step v s (.select c) =
      (s, if s.endpoints.length = 0 then .err
          else if s.cache.length ≠ 0 then pickCached s.endpoints s.cache c
          else pickDirect s.endpoints c) := by
  simp only [step, select, hk]
  split
  · rfl
  · split <;> rfl

theorem cacheOf_false (v : Variant) (eps : List Ep) : cacheOf v false eps = [] := by simp [cacheOf]

/-! ### equal static weights: a window of `N` selections is a rotation of the set -/

theorem range_filterMap_take {α : Type} (l : List α) : ∀ n, n ≤ l.length →
    (List.range n).filterMap (l[·]?) = l.take n
  | 0, _ => by simp
  | n + 1, h => by
    have ih := range_filterMap_take l n (by omega)
    have hn : n < l.length := by omega
    rw [List.range_succ, List.filterMap_append, ih, List.take_add_one]
    simp [List.getElem?_eq_getElem hn]

theorem range_filterMap_getElem {α : Type} (l : List α) : (List.range l.length).filterMap (l[·]?) = l := by
  rw [range_filterMap_take l l.length (Nat.le_refl _), List.take_length]

theorem pickAt_mod (σ : List Nat) (p m : Nat) : pickAt σ (p % (m * σ.length)) = pickAt σ p := by
  unfold pickAt
  rw [Nat.mod_mod_of_dvd p (Dvd.intro_left m rfl)]

/-- selections at positions `a, a+1, …` through the cycle `k ↦ σ[k mod N]` of length `10·N` -/
theorem equal_window (eps : List Ep) (σ : List Nat) (hσ : σ.Perm (List.range eps.length)) (hne : eps ≠ [])
    (a : Nat) :
    ∃ picked : List Ep,
      (List.range eps.length).map
          (fun j => pickCached eps ((List.range (10 * eps.length)).map (pickAt σ)) (a + j))
        = picked.map Res.selected ∧ picked.Perm eps := by
  have hlen : σ.length = eps.length := by simpa using hσ.length_eq
  have hN : 0 < eps.length := List.length_pos_iff.2 hne
  have hL : 0 < ((List.range (10 * eps.length)).map (pickAt σ)).length := by simp; omega
  have hvalid : ∀ i ∈ σ.rotate a, i < eps.length := by
    intro i hi
    have := hσ.mem_iff.1 (List.mem_rotate.1 hi)
    simpa using this
  refine ⟨(σ.rotate a).filterMap (eps[·]?), ?_, ?_⟩
  · rw [← map_pickIdx_valid eps _ hvalid, ← window_pickAt σ (by omega) a, hlen, List.map_map]
    apply List.map_congr_left
    intro j _
    rw [pickCached_eq hL]
    simp only [List.getElem_map, List.getElem_range, List.length_map, List.length_range, Function.comp]
    rw [← hlen, pickAt_mod σ (a + j) 10]
  · have h1 := ((List.rotate_perm σ a).trans hσ).filterMap (eps[·]?)
    rw [range_filterMap_getElem] at h1
    exact h1

end Tars.Sel
