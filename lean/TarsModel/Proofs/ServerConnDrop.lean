import TarsModel.Proofs.ServerConnStep

/-!
Helper lemmas for C12, part 4 (D15): once the pool's dispatcher has taken the stop request, a
request that is still queued stays queued under EVERY continuation; its connection is never closed
by the server and `Shutdown` can no longer return through `CloseIdles`.
-/
namespace Tars.ServerConn

/-- a transition of one connection record that leaves a queued request `i`, the open/closed status
and an existing registration alone -/
def Keeps (i : Nat) (f : Conn → Option Conn) : Prop :=
  ∀ k k', f k = some k' → k'.srvClosed = k.srvClosed ∧ (k.registered = true → k'.registered = true) ∧
    ∀ q, k.reqs[i]? = some q → q.st = .queued → k'.reqs[i]? = some q

theorem keeps_cSend (i : Nat) (nr : Bool) (r : Rid) : Keeps i (cSend nr r) := by
  intro k k' h; unfold cSend at h; split at h <;> try contradiction
  simp only [Option.some.injEq] at h; subst h; exact ⟨rfl, id, fun _ hq _ => hq⟩

theorem keeps_cAccept (i : Nat) : Keeps i cAccept := by
  intro k k' h; unfold cAccept at h; split at h <;> try contradiction
  simp only [Option.some.injEq] at h; subst h; exact ⟨rfl, id, fun _ hq _ => hq⟩

theorem keeps_cRegister (i : Nat) : Keeps i cRegister := by
  intro k k' h; unfold cRegister at h; split at h <;> try contradiction
  simp only [Option.some.injEq] at h; subst h; exact ⟨rfl, fun _ => rfl, fun _ hq _ => hq⟩

theorem keeps_cStamp (i : Nat) : Keeps i cStamp := by
  intro k k' h; unfold cStamp at h; split at h <;> try contradiction
  simp only [Option.some.injEq] at h; subst h; exact ⟨rfl, id, fun _ hq _ => hq⟩

theorem keeps_cRead (i n : Nat) : Keeps i (cRead n) := by
  intro k k' h; unfold cRead at h; split at h <;> try contradiction
  split at h <;> try contradiction
  simp only [Option.some.injEq] at h; subst h; exact ⟨rfl, id, fun _ hq _ => hq⟩

theorem keeps_cReadErr (i : Nat) (p b f : Bool) : Keeps i (cReadErr p b f) := by
  intro k k' h; unfold cReadErr at h; split at h <;> try contradiction
  split at h <;> (simp only [Option.some.injEq] at h; subst h; exact ⟨rfl, id, fun _ hq _ => hq⟩)

theorem keeps_cDrainTick (i : Nat) : Keeps i cDrainTick := by
  intro k k' h; unfold cDrainTick at h; split at h <;> try contradiction
  simp only [Option.some.injEq] at h; subst h; exact ⟨rfl, id, fun _ hq _ => hq⟩

theorem keeps_cAge (i : Nat) : Keeps i cAge := by
  intro k k' h; unfold cAge at h
  simp only [Option.some.injEq] at h; subst h; exact ⟨rfl, id, fun _ hq _ => hq⟩

theorem keeps_cDispatch (i : Nat) (p : Bool) : Keeps i (cDispatch p) := by
  intro k k' h; unfold cDispatch at h; split at h <;> try contradiction
  simp only [Option.some.injEq] at h; subst h
  refine ⟨rfl, id, ?_⟩
  intro q hq _
  have hlt : i < k.reqs.length := (List.getElem?_eq_some_iff.mp hq).1
  simp only
  rw [List.getElem?_append_left hlt]; exact hq

theorem keeps_cEnqueued' (i : Nat) : Keeps i cEnqueued' := by
  intro k k' h; unfold cEnqueued' cEnqueued at h; split at h <;> simp at h
  subst h; exact ⟨rfl, id, fun _ hq _ => hq⟩

theorem keeps_cSetSt (i j : Nat) (frm : HSt) (to : Conn → HSt) (hne : frm ≠ .queued) :
    Keeps i (fun k => cSetSt j frm (to k) k) := by
  intro k k' h
  simp only [cSetSt] at h
  split at h <;> try contradiction
  rename_i q' hq'
  split at h <;> try contradiction
  rename_i hst
  simp only [Option.some.injEq] at h; subst h
  refine ⟨rfl, id, ?_⟩
  intro q hq hqs
  by_cases hij : j = i
  · subst hij
    rw [hq'] at hq; cases hq
    rw [hst] at hqs; exact absurd hqs hne
  · simp only
    rw [List.getElem?_set_ne hij]; exact hq

theorem keeps_cStartP (i j : Nat) : Keeps i (cStartP j) :=
  keeps_cSetSt i j .handed (fun _ => .running) (by simp)
theorem keeps_cFin (i j : Nat) : Keeps i (cFin j) :=
  keeps_cSetSt i j .running (fun _ => .finished) (by simp)
theorem keeps_of_imp {i : Nat} {f g : Conn → Option Conn} (h : ∀ k k', f k = some k' → g k = some k')
    (hg : Keeps i g) : Keeps i f := fun k k' hf => hg k k' (h k k' hf)
theorem keeps_cWrite (i j : Nat) : Keeps i (cWrite j) :=
  keeps_of_imp (cWrite_imp j) (keeps_cSetSt i j .finished (fun k => .wrote (!k.srvClosed)) (by simp))
theorem keeps_cSkip (i : Nat) (d : Bool) (j : Nat) : Keeps i (cSkip d j) :=
  keeps_of_imp (cSkip_imp d j) (keeps_cSetSt i j .finished (fun _ => if d then .wrote true else .leaked) (by simp))

theorem keeps_cDec (i j : Nat) : Keeps i (cDec j) := by
  intro k k' h
  unfold cDec at h
  split at h <;> try contradiction
  rename_i q' hq'
  split at h <;> try contradiction
  rename_i ok hst
  simp only [Option.some.injEq] at h; subst h
  refine ⟨rfl, id, ?_⟩
  intro q hq hqs
  by_cases hij : j = i
  · subst hij
    rw [hq'] at hq; cases hq
    rw [hst] at hqs; contradiction
  · simp only
    rw [List.getElem?_set_ne hij]; exact hq

theorem keeps_cFinEarly (i j : Nat) : Keeps i (cFinEarly j) := by
  intro k k' h
  unfold cFinEarly at h
  split at h <;> try contradiction
  rename_i q' hq'
  split at h <;> try contradiction
  rename_i hst
  simp only [Option.some.injEq] at h; subst h
  refine ⟨rfl, id, ?_⟩
  intro q hq hqs
  by_cases hij : j = i
  · subst hij
    rw [hq'] at hq; cases hq
    rw [hst] at hqs; contradiction
  · simp only
    rw [List.getElem?_set_ne hij]; exact hq

theorem keeps_cLateWrite (i j : Nat) : Keeps i (cLateWrite j) := by
  intro k k' h
  unfold cLateWrite at h
  split at h <;> try contradiction
  rename_i q' hq'
  split at h <;> try contradiction
  rename_i hst
  simp only [Option.some.injEq] at h; subst h
  refine ⟨rfl, id, ?_⟩
  intro q hq hqs
  by_cases hij : j = i
  · subst hij
    rw [hq'] at hq; cases hq
    rw [hst] at hqs; contradiction
  · simp only
    rw [List.getElem?_set_ne hij]; exact hq

theorem keeps_cRecvRsp (i j : Nat) : Keeps i (cRecvRsp j) := by
  intro k k' h; unfold cRecvRsp at h; split at h <;> try contradiction
  split at h <;> try contradiction
  simp only [Option.some.injEq] at h; subst h; exact ⟨rfl, id, fun _ hq _ => hq⟩

theorem keeps_cRecvMsg (i : Nat) : Keeps i cRecvMsg := by
  intro k k' h; unfold cRecvMsg at h; split at h <;> try contradiction
  simp only [Option.some.injEq] at h; subst h; exact ⟨rfl, id, fun _ hq _ => hq⟩

theorem keeps_cRecvEof (i : Nat) : Keeps i cRecvEof := by
  intro k k' h; unfold cRecvEof at h; split at h <;> try contradiction
  simp only [Option.some.injEq] at h; subst h; exact ⟨rfl, id, fun _ hq _ => hq⟩

/-- request `i` of connection `c` sits in a pool whose dispatcher no longer takes jobs -/
structure Dropped (s : State) (c i : Nat) : Prop where
  stopped : s.pst = .stopping ∨ s.pst = .stopped
  noHeld : s.held = none
  there : ∃ k q, s.conns[c]? = some k ∧ k.reqs[i]? = some q ∧ q.st = .queued ∧
    k.srvClosed = false ∧ k.registered = true
  pass : ∀ p, s.pass = some p → p.holding ≠ some c ∧ (p.all = true → c ∈ p.todo)
  notRet : s.spc ≠ .returned true
  /-- `Release` has been called: the accept loop is past the call -/
  apcPast : s.apc = .inRelease ∨ s.apc = .returned

theorem numInvoke_pos_of_queued {k : Conn} {i : Nat} {q : Req} (hi : ConnInv k)
    (hq : k.reqs[i]? = some q) (hs : q.st = .queued) : 0 < k.numInvoke := by
  rw [hi.count]
  exact List.countP_pos_iff.mpr ⟨q, mem_of_getElem? hq, by simp [notDone, hs, HSt.isDone]⟩

theorem mem_registeredIds_of {s : State} {c : Cid} {k : Conn} (hk : s.conns[c]? = some k)
    (hr : k.registered = true) : c ∈ registeredIds s := by
  unfold registeredIds
  rw [List.mem_filter]
  refine ⟨List.mem_range.mpr (List.getElem?_eq_some_iff.mp hk).1, ?_⟩
  simp [hk, hr]

theorem dropped_there_set {s : State} {c i c' : Nat} {k0 k' : Conn} (hd : Dropped s c i)
    (hk : s.conns[c']? = some k0)
    (hkeep : c' = c → k'.srvClosed = k0.srvClosed ∧ (k0.registered = true → k'.registered = true) ∧
      ∀ q, k0.reqs[i]? = some q → q.st = .queued → k'.reqs[i]? = some q) :
    ∃ k q, (s.conns.set c' k')[c]? = some k ∧ k.reqs[i]? = some q ∧ q.st = .queued ∧
      k.srvClosed = false ∧ k.registered = true := by
  obtain ⟨k, q, hck, hq, hqs, hcl, hreg⟩ := hd.there
  by_cases hcc : c' = c
  · subst hcc
    rw [hk] at hck; cases hck
    obtain ⟨h1, h2, h3⟩ := hkeep rfl
    exact ⟨k', q, getElem?_set_self' hk, h3 q hq hqs, hqs, by rw [h1]; exact hcl, h2 hreg⟩
  · exact ⟨k, q, by rw [List.getElem?_set_ne hcc]; exact hck, hq, hqs, hcl, hreg⟩

theorem dropped_updConn {s s' : State} {c i c' : Nat} {f : Conn → Option Conn} (hk : Keeps i f)
    (hd : Dropped s c i) (h : updConn s c' f = some s') : Dropped s' c i := by
  obtain ⟨k0, k', hk0, hf, rfl⟩ := updConn_some h
  exact ⟨hd.stopped, hd.noHeld, dropped_there_set hd hk0 (fun _ => hk k0 k' hf), hd.pass, hd.notRet, hd.apcPast⟩

theorem dropped_globals {s s' : State} {c i : Nat} (hd : Dropped s c i) (hc : s'.conns = s.conns)
    (hp : s'.pass = s.pass) (hpst : s'.pst = .stopping ∨ s'.pst = .stopped) (hh : s'.held = none)
    (hr : s'.spc ≠ .returned true) (ha : s'.apc = .inRelease ∨ s'.apc = .returned) : Dropped s' c i :=
  ⟨hpst, hh, by rw [hc]; exact hd.there, by rw [hp]; exact hd.pass, hr, ha⟩

theorem notifyAll_get {s : State} {c : Nat} {k : Conn} (hk : s.conns[c]? = some k) :
    (notifyAll s).conns[c]? = some (cNotify k) := by
  simp [notifyAll, List.getElem?_map, hk]

theorem cNotify_keeps (k : Conn) : (cNotify k).reqs = k.reqs ∧ (cNotify k).srvClosed = k.srvClosed ∧
    (cNotify k).registered = k.registered :=
  ⟨(cNotify_keeps' k).1, (cNotify_keeps' k).2.1, (cNotify_keeps' k).2.2.1⟩

theorem dropped_notifyAll {s : State} {c i : Nat} (hd : Dropped s c i) : Dropped (notifyAll s) c i := by
  obtain ⟨k, q, hck, hq, hqs, hcl, hreg⟩ := hd.there
  obtain ⟨h1, h2, h3⟩ := cNotify_keeps k
  exact ⟨hd.stopped, hd.noHeld,
    ⟨cNotify k, q, notifyAll_get hck, by rw [h1]; exact hq, hqs, by rw [h2]; exact hcl, by rw [h3]; exact hreg⟩,
    hd.pass, hd.notRet, hd.apcPast⟩

theorem dropped_ciBegin {s : State} {c i : Nat} {b : Bool} (hd : Dropped s c i) :
    Dropped { s with pass := some { todo := registeredIds s, all := true, holding := none },
                     lastPass := registeredIds s, firstPoll := true, fpNotified := b } c i := by
  obtain ⟨k, q, hck, hq, hqs, hcl, hreg⟩ := hd.there
  refine ⟨hd.stopped, hd.noHeld, hd.there, ?_, hd.notRet, hd.apcPast⟩
  intro p hp
  simp at hp; subst hp
  exact ⟨by simp, fun _ => mem_registeredIds_of hck hreg⟩

/-- The dropped request stays dropped, whatever happens next (any configuration with a pool). -/
theorem dropped_step {cfg : Cfg} {n qc : Nat} (hpool : cfg.pool = some (n, qc)) {s s' : State} {c i : Nat}
    (a : Action) (hI : GInv cfg s) (hd : Dropped s c i) (h : step cfg s a = some s') : Dropped s' c i := by
  obtain ⟨k, q, hck, hq, hqs, hcl, hreg⟩ := hd.there
  have hpos : 0 < k.numInvoke := numInvoke_pos_of_queued (hI.conns c k hck) hq hqs
  cases a with
  | connect =>
    simp only [step, Option.some.injEq] at h; subst h
    refine ⟨hd.stopped, hd.noHeld, ⟨k, q, ?_, hq, hqs, hcl, hreg⟩, hd.pass, hd.notRet, hd.apcPast⟩
    have hlt : c < s.conns.length := (List.getElem?_eq_some_iff.mp hck).1
    simp only
    rw [List.getElem?_append_left hlt]; exact hck
  | send c' r => exact dropped_updConn (keeps_cSend i false r) hd h
  | sendNR c' r => exact dropped_updConn (keeps_cSend i true r) hd h
  | accept c' =>
    simp only [step] at h
    split at h
    · exact dropped_updConn (keeps_cAccept i) hd h
    · contradiction
  | register c' => exact dropped_updConn (keeps_cRegister i) hd h
  | stamp c' => exact dropped_updConn (keeps_cStamp i) hd h
  | read c' m => exact dropped_updConn (keeps_cRead i m) hd h
  | readErr c' f => exact dropped_updConn (keeps_cReadErr i _ _ f) hd h
  | age c' => exact dropped_updConn (keeps_cAge i) hd h
  | dispatch c' => exact dropped_updConn (keeps_cDispatch i _) hd h
  | enqueue c' =>
    simp only [step] at h
    split at h <;> try contradiction
    rename_i n' q' k0 hp hk0
    split at h <;> try contradiction
    rename_i k' j hce
    have hce' : cEnqueued' k0 = some k' := by simp [cEnqueued', hce]
    split at h
    · simp only [Option.some.injEq] at h; subst h
      exact ⟨hd.stopped, hd.noHeld, dropped_there_set hd hk0 (fun _ => keeps_cEnqueued' i k0 k' hce'),
        hd.pass, hd.notRet, hd.apcPast⟩
    · split at h <;> try contradiction
      rename_i hg
      -- the unbuffered hand-off needs a dispatcher that still selects
      rcases hd.stopped with hs | hs <;> rcases hg.2.2 with hl | hl <;> rw [hs] at hl <;> contradiction
  | pTake =>
    simp only [step] at h
    split at h <;> try contradiction
    split at h <;> try contradiction
    rename_i hg
    rcases hd.stopped with hs | hs <;> rcases hg with hl | hl <;> rw [hs] at hl <;> contradiction
  | pGive =>
    simp only [step, hpool] at h
    split at h <;> try contradiction
    rename_i hh
    rw [hd.noHeld] at hh
    contradiction
  | start c' j =>
    have hp : poolOn cfg = true := by simp [poolOn, hpool]
    simp only [step, hp, if_true] at h
    exact dropped_updConn (keeps_cStartP i j) hd h
  | fin c' j =>
    simp only [step] at h
    split at h
    · contradiction
    · exact dropped_updConn (keeps_cFin i j) hd h
  | finEarly c' j =>
    simp only [step] at h
    split at h
    · exact dropped_updConn (keeps_cFinEarly i j) hd h
    · contradiction
  | lateWrite c' j => exact dropped_updConn (keeps_cLateWrite i j) hd h
  | write c' j => exact dropped_updConn (keeps_cWrite i j) hd h
  | skip c' j => exact dropped_updConn (keeps_cSkip i _ j) hd h
  | dec c' j => exact dropped_updConn (keeps_cDec i j) hd h
  | drainTick c' =>
    simp only [step] at h
    split at h <;> try contradiction
    split at h <;> try contradiction
    exact dropped_updConn (keeps_cDrainTick i) hd h
  | drainClose c' =>
    by_cases hcc : c' = c
    · subst hcc
      obtain ⟨k0, k', hk0, hf, _⟩ := updConn_some h
      rw [hck] at hk0; cases hk0
      unfold cDrainClose at hf
      split at hf <;> try contradiction
      split at hf <;> try contradiction
      rename_i hz
      omega
    · obtain ⟨k0, k', hk0, hf, rfl⟩ := updConn_some h
      exact ⟨hd.stopped, hd.noHeld, dropped_there_set hd hk0 (fun e => absurd e hcc), hd.pass, hd.notRet, hd.apcPast⟩
  | shutdownCall =>
    simp only [step] at h
    split at h <;> try contradiction
    simp only [Option.some.injEq] at h; subst h
    exact dropped_globals hd rfl rfl hd.stopped hd.noHeld (by simp) hd.apcPast
  | setClosed =>
    simp only [step] at h
    split at h <;> try contradiction
    simp only [Option.some.injEq] at h; subst h
    exact dropped_globals hd rfl rfl hd.stopped hd.noHeld (by simp) hd.apcPast
  | acceptExit =>
    simp only [step] at h
    split at h <;> try contradiction
    rename_i hg
    rcases hd.apcPast with ha | ha <;> rw [ha] at hg <;> exact absurd hg.1 (by simp)
  | relCall =>
    simp only [step] at h
    split at h <;> try contradiction
    rename_i hg
    rcases hd.apcPast with ha | ha <;> rw [ha] at hg <;> exact absurd hg.1 (by simp)
  | pStop =>
    simp only [step] at h
    split at h <;> try contradiction
    rename_i hg
    rcases hd.stopped with hs | hs <;> rw [hs] at hg <;> exact absurd hg.1 (by simp)
  | relRet =>
    simp only [step] at h
    split at h <;> try contradiction
    simp only [Option.some.injEq] at h; subst h
    exact dropped_globals hd rfl rfl (Or.inr rfl) hd.noHeld hd.notRet (Or.inr rfl)
  | closeMsg =>
    simp only [step] at h
    split at h <;> try contradiction
    split at h <;> try contradiction
    simp only [Option.some.injEq] at h; subst h
    exact dropped_notifyAll hd
  | onShutdownRet =>
    simp only [step] at h
    split at h <;> try contradiction
    simp only [Option.some.injEq] at h; subst h
    exact dropped_globals hd rfl rfl hd.stopped hd.noHeld (by simp) hd.apcPast
  | ciBegin =>
    simp only [step] at h
    split at h <;> try contradiction
    simp only [Option.some.injEq] at h; subst h
    by_cases hl : s.listenClosed = 1
    · simp only [hl, if_true]
      exact dropped_ciBegin (dropped_notifyAll hd)
    · simp only [hl, if_false]
      exact dropped_ciBegin hd
  | ciVisit c' =>
    simp only [step] at h
    split at h <;> try contradiction
    rename_i p hp
    split at h <;> try contradiction
    rename_i hg
    split at h <;> try contradiction
    rename_i k0 hk0
    obtain ⟨hnh, hall⟩ := hd.pass p hp
    have herase : c' ≠ c → p.all = true → c ∈ p.todo.erase c' :=
      fun hne ha => (List.mem_erase_of_ne (fun e => hne e.symm)).mpr (hall ha)
    split at h
    · rename_i hr
      simp only [Option.some.injEq] at h; subst h
      have hne : c' ≠ c := by
        intro e; subst e
        rw [hck] at hk0; cases hk0
        rw [hreg] at hr; contradiction
      refine ⟨hd.stopped, hd.noHeld, hd.there, ?_, hd.notRet, hd.apcPast⟩
      intro p' h'; simp at h'; subst h'
      exact ⟨hnh, herase hne⟩
    · split at h
      · simp only [Option.some.injEq] at h; subst h
        refine ⟨hd.stopped, hd.noHeld, hd.there, ?_, hd.notRet, hd.apcPast⟩
        intro p' h'; simp at h'; subst h'
        exact ⟨hnh, fun ha => by simp at ha⟩
      · rename_i hidle
        have hne : c' ≠ c := by
          intro e; subst e
          rw [hck] at hk0; cases hk0
          exact hidle (Or.inl hpos)
        split at h
        · simp only [Option.some.injEq] at h; subst h
          refine ⟨hd.stopped, hd.noHeld, hd.there, ?_, hd.notRet, hd.apcPast⟩
          intro p' h'; simp at h'; subst h'
          exact ⟨by simp [hne], herase hne⟩
        · simp only [Option.some.injEq] at h; subst h
          refine ⟨hd.stopped, hd.noHeld, dropped_there_set hd hk0 (fun e => absurd e hne), ?_, hd.notRet,
            hd.apcPast⟩
          intro p' h'; simp at h'; subst h'
          exact ⟨hnh, herase hne⟩
        · simp only [Option.some.injEq] at h; subst h
          refine ⟨hd.stopped, hd.noHeld, hd.there, ?_, hd.notRet, hd.apcPast⟩
          intro p' h'; simp at h'; subst h'
          exact ⟨hnh, fun ha => by simp at ha⟩
  | ciClose =>
    simp only [step] at h
    split at h <;> try contradiction
    rename_i p hp
    split at h <;> try contradiction
    rename_i c' hh
    split at h <;> try contradiction
    rename_i k0 hk0
    simp only [Option.some.injEq] at h; subst h
    obtain ⟨hnh, hall⟩ := hd.pass p hp
    have hne : c' ≠ c := by
      intro e; subst e; exact hnh hh
    refine ⟨hd.stopped, hd.noHeld, dropped_there_set hd hk0 (fun e => absurd e hne), ?_, hd.notRet, hd.apcPast⟩
    intro p' h'; simp at h'; subst h'
    exact ⟨by simp, hall⟩
  | ciEnd =>
    simp only [step] at h
    split at h <;> try contradiction
    rename_i p hs hp
    split at h <;> try contradiction
    rename_i hg
    simp only [Option.some.injEq] at h; subst h
    obtain ⟨_, hall⟩ := hd.pass p hp
    have hpa : p.all = false := by
      cases hpa : p.all with
      | false => rfl
      | true => have := hall hpa; rw [hg.1] at this; simp at this
    refine ⟨hd.stopped, hd.noHeld, hd.there, ?_, ?_, hd.apcPast⟩
    · intro p' h'; simp at h'
    · simp [hpa]
  | ctxExpire =>
    simp only [step] at h
    split at h <;> try contradiction
    simp only [Option.some.injEq] at h; subst h
    exact dropped_globals hd rfl rfl hd.stopped hd.noHeld (by simp) hd.apcPast
  | recvRsp c' j => exact dropped_updConn (keeps_cRecvRsp i j) hd h
  | recvMsg c' => exact dropped_updConn (keeps_cRecvMsg i) hd h
  | recvEof c' => exact dropped_updConn (keeps_cRecvEof i) hd h

end Tars.ServerConn
