import TarsModel.Proofs.ShortPrefix

/-!
  C06 helper lemmas, struct level: `ReadFrom` on a CUT encoding.  The member loop on an input that
  is the encoding of a well-typed value cut at an admissible place (`CutOK`: a member boundary, or
  inside a scalar member's field behind its head) yields an error or exactly the present members
  plus the `ResetDefault` values of the (optional) absent ones (`decMembers_cut`, `decStruct_cut`);
  at a boundary with only optional members left it succeeds (`decStruct_boundary`).  Uses the
  round trip `rt_all` (C03) for the complete members and `decVar_absent_opt`/`decVar_missing_req`
  (C04) at the end of the input.
-/
namespace Tars
open Consts

/-! ### a member cut inside its field (scalar members) -/

/-- a scalar/enum member whose field is cut short behind its (complete) head: the generated read
    reports an error -/
theorem decVar_atom_cut (env : Env) (F tag : Nat) (req : Bool) (ty : Ty) (dflt : Option Val)
    (v old : Val) (r : Reader) (q : Bytes) (hat : ty.isAtom = true) (hv : ScalarOK ty v)
    (htag : tag < 256) (hlen : q.length < (encVar env tag req ty dflt v).length)
    (hpre : q <+: encVar env tag req ty dflt v)
    (hhead : ∃ hty rest, hty < 16 ∧ q = writeHead hty tag ++ rest) (h : r.rest = q) :
    ∃ e r', decVar env (F+1) tag req ty old r = (.error e, r') := by
  rw [decVar_atom env F tag req ty old r hat]
  have henc : encVar env tag req ty dflt v = writeScalar ty v tag := by
    rw [encVar_scalarVal env tag req ty dflt v hv] at hlen ⊢
    split
    · rfl
    · split
      · rename_i hc; rw [if_neg (by assumption), if_pos hc] at hlen; simp at hlen
      · rfl
  rw [henc] at hlen hpre
  obtain ⟨hty, payload, hsh, h16, hne, hk⟩ := readScalar_short ty v old tag req hv
  obtain ⟨hty', rest', h16', rfl⟩ := hhead
  rw [hsh] at hpre hlen
  obtain ⟨rfl, hpl⟩ := writeHead_prefix_inj h16' h16 hpre
  have hs := skipToNoCheck_hit r hty' tag req rest' h16' hne htag h
  have hr1 := r.rest_adv _ _ h
  obtain ⟨e, he⟩ := hk r _ hs (by rw [hr1]; exact hpl)
    (by rw [Reader.remaining_eq_rest, hr1]; simp at hlen; omega)
  exact ⟨e, _, Prod.ext he rfl⟩

/-! ### the members after the end of the input -/

/-- values of the members that are absent because the input has ended (`F` = fuel of the member
    loop at that point; it only matters for the nested `ResetDefault` of struct members) -/
def absentVals (env : Env) : Nat → List Field → List Val → List Val
  | F, f :: fs, o :: os => Evolve.absentVal env (F - 2) f.ty o :: absentVals env (F - 1) fs os
  | _, _, _ => []

def TargetOks (env : Env) : List Field → List Val → Prop
  | [], [] => True
  | f :: fs, o :: os => Evolve.targetOk env f.ty o = true ∧ TargetOks env fs os
  | _, _ => False

theorem targetOk_of_oldOK {env : Env} {ty : Ty} {dflt : Option Val} {o : Val}
    (hd : DfltOK ty dflt) (ho : OldOK env ty dflt o) : Evolve.targetOk env ty o = true := by
  have scal : ∀ w, ScalarOK ty w → Evolve.targetOk env ty w = true := by
    intro w hw
    cases ty <;> cases w <;> simp only [ScalarOK] at hw <;> simp [Evolve.targetOk] <;> omega
  cases hdf : dflt with
  | some d =>
    rw [hdf] at hd ho
    simp only [OldOK] at ho
    subst ho
    exact scal _ hd.2
  | none =>
    rw [hdf] at ho
    simp only [OldOK] at ho
    by_cases hat : ty.isAtom = true
    · rw [ready_atom hat ho]; exact scal _ (scalarOK_zero hat)
    · cases ty with
      | vec e => simp [Evolve.targetOk]
      | arr n e => simp [Evolve.targetOk]
      | map k v => simp [Evolve.targetOk]
      | struct name =>
        cases o <;> simp [Ready, Ty.isAtom, Ty.isScalar] at ho
        cases hfs : env.find name with
        | none => simp [hfs] at ho
        | some fs => simp [Evolve.targetOk, hfs]
      | _ => simp [Ty.isAtom, Ty.isScalar] at hat

theorem targetOks_of_oldOKs {env : Env} : ∀ {fs : List Field} {os : List Val},
    (∀ f ∈ fs, DfltOK f.ty f.dflt) → OldOKs env fs os → TargetOks env fs os
  | [], [], _, _ => trivial
  | [], _ :: _, _, h => by simp [OldOKs] at h
  | _ :: _, [], _, h => by simp [OldOKs] at h
  | f :: fs, o :: os, hd, h => by
    simp only [OldOKs] at h
    exact ⟨targetOk_of_oldOK (hd f (by simp)) h.1,
      targetOks_of_oldOKs (fun g hg => hd g (by simp [hg])) h.2⟩

/-- at the end of the input every remaining member is absent: optional ones keep what
    `ResetDefault` gave them, a required one makes `ReadFrom` fail -/
theorem decMembers_eof (env : Env) : ∀ (fs : List Field) (os : List Val) (F : Nat) (r : Reader),
    r.rest = [] → fs.length + 1 ≤ F → TargetOks env fs os →
    ((∀ f ∈ fs, f.req = false) → decMembers env F fs os r = (.ok (absentVals env F fs os), r)) ∧
    ((∃ f ∈ fs, f.req = true) → ∃ e r', decMembers env F fs os r = (.error e, r'))
  | [], [], F, r, _, hF, _ => by
    obtain ⟨F', rfl⟩ : ∃ F', F = F' + 1 := ⟨F - 1, by simp at hF; omega⟩
    exact ⟨fun _ => by rw [decMembers_nil]; rfl, fun ⟨f, hf, _⟩ => by simp at hf⟩
  | [], _ :: _, _, _, _, _, h => by simp [TargetOks] at h
  | _ :: _, [], _, _, _, _, h => by simp [TargetOks] at h
  | f :: fs, o :: os, F, r, hr, hF, hok => by
    simp only [List.length_cons] at hF
    obtain ⟨F', rfl⟩ : ∃ F', F = F' + 2 := ⟨F - 2, by omega⟩
    simp only [TargetOks] at hok
    have ih := decMembers_eof env fs os (F' + 1) r hr (by omega) hok.2
    rw [decMembers_cons]
    cases hreq : f.req with
    | false =>
      rw [Evolve.decVar_absent_opt env F' f.tag f.ty o r hok.1 (Or.inl hr)]
      simp only
      constructor
      · intro hall
        rw [ih.1 (fun g hg => hall g (by simp [hg]))]
        simp [absentVals]
      · rintro ⟨g, hg, hgr⟩
        rcases List.mem_cons.mp hg with rfl | hg'
        · rw [hreq] at hgr; cases hgr
        · obtain ⟨e, r', he⟩ := ih.2 ⟨g, hg', hgr⟩
          rw [he]; exact ⟨e, r', rfl⟩
    | true =>
      have hm := Evolve.decVar_missing_req env F' f.tag f.ty o r hok.1 (Or.inl hr)
      cases hd : decVar env (F' + 1) f.tag true f.ty o r with
      | mk res r1 =>
        rw [hd] at hm
        simp only at hm
        subst hm
        simp only
        refine ⟨fun hall => ?_, fun _ => ⟨_, _, rfl⟩⟩
        have := hall f (by simp)
        rw [hreq] at this; cases this


/-! ### where the input may be cut -/

/-- `p` is the encoding of the members `fs`/`vs` cut at an admissible place: at a member boundary
    (possibly the very end), or inside the field of a scalar/enum member behind its complete
    head.  (Not covered: a cut inside a vector, map, array or nested-struct member, and a cut
    between the two bytes of a head with tag ≥ 15.) -/
def CutOK (env : Env) : List Field → List Val → Bytes → Prop
  | f :: fs, v :: vs, p =>
    (∃ p', p = encVar env f.tag f.req f.ty f.dflt v ++ p' ∧ CutOK env fs vs p') ∨
    p = [] ∨
    (f.ty.isAtom = true ∧ p.length < (encVar env f.tag f.req f.ty f.dflt v).length ∧
      p <+: encVar env f.tag f.req f.ty f.dflt v ∧ ∃ hty rest, hty < 16 ∧ p = writeHead hty f.tag ++ rest)
  | _, _, p => p = []

/-- an admissible cut never leaves a head of a smaller or equal tag in front -/
theorem cutOK_nextTagGt (env : Env) (tag : Nat) : ∀ (fs : List Field) (vs : List Val) (p : Bytes),
    (∀ f ∈ fs, tag < f.tag ∧ f.tag ≤ 255) → CutOK env fs vs p → NextTagGt tag p
  | [], _, p, _, h => by simp only [CutOK] at h; exact Or.inl h
  | _ :: _, [], p, _, h => by simp only [CutOK] at h; exact Or.inl h
  | f :: fs, v :: vs, p, hfs, h => by
    simp only [CutOK] at h
    have hf := hfs f (by simp)
    rcases h with ⟨p', rfl, hc⟩ | rfl | ⟨_, _, _, hty, rest, h16, rfl⟩
    · have ih := cutOK_nextTagGt env tag fs vs p' (fun g hg => hfs g (by simp [hg])) hc
      rcases encVar_headAt env f.tag f.req f.ty f.dflt v with h0 | hh
      · rw [h0]; simpa using ih
      · exact hh.nextTagGt hf.1 (by omega) p'
    · exact Or.inl rfl
    · exact Or.inr ⟨hty, f.tag, rest, h16, by omega, Or.inr hf.1, rfl⟩

/-- **the member loop on a cut encoding**: an error, or exactly the members whose complete fields
    are present followed by the `ResetDefault` values of the (optional) others; it succeeds only
    when the cut is at a member boundary -/
theorem decMembers_cut (env : Env) (rk : String → Nat) (hE : EnvWF env rk) (b : Nat) (hb : b ≤ env.length) :
    ∀ (vs : List Val) (fs : List Field) (olds : List Val) (fuel : Nat) (r : Reader) (p : Bytes),
      (∀ f ∈ fs, FieldOK env rk b f) → TagsAsc fs → WTm env fs vs → OldOKs env fs olds →
      CutOK env fs vs p → (env.width + 3) * p.length + fs.length + 3 ≤ fuel → r.rest = p →
      (∃ e r', decMembers env fuel fs olds r = (.error e, r')) ∨
      (∃ k r', k ≤ fs.length ∧ p = encMembers env (fs.take k) (vs.take k) ∧
        (∀ f ∈ fs.drop k, f.req = false) ∧ r'.rest = [] ∧
        decMembers env fuel fs olds r =
          (.ok (normMembers env (fs.take k) (vs.take k) ++
                absentVals env (fuel - k) (fs.drop k) (olds.drop k)), r'))
  | [], fs, olds, fuel, r, p, _, _, hwt, hold, hcut, hfuel, hr => by
    cases fs with
    | cons g gs => simp [WTm] at hwt
    | nil =>
      cases olds with
      | cons _ _ => simp [OldOKs] at hold
      | nil =>
        simp only [CutOK] at hcut
        subst hcut
        obtain ⟨f, rfl⟩ : ∃ f, fuel = f + 1 := ⟨fuel - 1, by omega⟩
        right
        exact ⟨0, r, by simp, by simp [encMembers], by simp, hr,
          by rw [decMembers_nil]; simp [normMembers, absentVals]⟩
  | v :: vs, fs, olds, fuel, r, p, hfs, hasc, hwt, hold, hcut, hfuel, hr => by
    cases fs with
    | nil => simp [WTm] at hwt
    | cons g gs =>
      cases olds with
      | nil => simp [OldOKs] at hold
      | cons o os =>
        simp only [WTm] at hwt
        simp only [OldOKs] at hold
        simp only [CutOK] at hcut
        simp only [List.length_cons] at hfuel
        have hg := hfs g (by simp)
        have hasc' := List.pairwise_cons.mp hasc
        have hdf : ∀ f ∈ g :: gs, DfltOK f.ty f.dflt := fun f hf => (hfs f hf).dfltOK
        rcases hcut with ⟨p', rfl, hc⟩ | rfl | ⟨hat, hlen, hpre, hhead⟩
        · -- the first member is complete
          obtain ⟨f, rfl⟩ : ∃ f, fuel = f + 1 := ⟨fuel - 1, by omega⟩
          have hnt : NextTagGt g.tag p' := cutOK_nextTagGt env g.tag gs vs p'
            (fun f' hf' => ⟨hasc'.1 f' hf', (hfs f' (by simp [hf'])).1⟩) hc
          have hneed := (fuelOK_all env v g.tag g.req g.ty g.dflt hwt.1).1
          have hlen : (encVar env g.tag g.req g.ty g.dflt v ++ p').length
              = (encVar env g.tag g.req g.ty g.dflt v).length + p'.length := by simp
          rw [hlen, Nat.mul_add] at hfuel
          have hv := rt_all env rk hE v f g.tag g.req g.ty g.dflt o r p'
            (by have := hg.1; omega) (TyOK.mono (by omega) hg.2.1) hg.dfltOK hwt.1 hold.1
            (fun _ => hnt) (by omega) hr
          rw [decMembers_cons, hv]
          simp only
          have hr' := r.rest_adv _ _ hr
          have ih := decMembers_cut env rk hE b hb vs gs os f _ p'
            (fun f' hf' => hfs f' (by simp [hf'])) hasc'.2 hwt.2 hold.2 hc (by omega) hr'
          rcases ih with ⟨e, r', he⟩ | ⟨k, r', hk, hp, hopt, hrest, hdec⟩
          · left; rw [he]; exact ⟨e, r', rfl⟩
          · right
            refine ⟨k + 1, r', by simp; omega, by simp [encMembers, hp], by simpa using hopt, hrest, ?_⟩
            rw [hdec]
            simp [normMembers]
        · -- the input ends here
          have hok := targetOks_of_oldOKs hdf (by simp only [OldOKs]; exact hold : OldOKs env (g :: gs) (o :: os))
          have heof := decMembers_eof env (g :: gs) (o :: os) fuel r hr (by simp; omega) hok
          by_cases hall : ∀ f ∈ g :: gs, f.req = false
          · right
            exact ⟨0, r, by simp, by simp [encMembers], by simpa using hall, hr,
              by rw [heof.1 hall]; simp [normMembers]⟩
          · left
            have : ∃ f ∈ g :: gs, f.req = true := by
              apply Classical.byContradiction
              intro hne
              apply hall
              intro f hf
              cases hq : f.req with
              | false => rfl
              | true => exact absurd ⟨f, hf, hq⟩ hne
            exact heof.2 this
        · -- the cut is inside the first member's field (a scalar)
          left
          obtain ⟨f, rfl⟩ : ∃ f, fuel = f + 2 := ⟨fuel - 2, by omega⟩
          obtain ⟨e, r', he⟩ := decVar_atom_cut env f g.tag g.req g.ty g.dflt v o r p hat
            (WT_atom hat hwt.1) (by have := hg.1; omega) hlen hpre hhead hr
          rw [decMembers_cons, he]
          exact ⟨e, r', rfl⟩


/-- **`ReadFrom` on a cut encoding** (fresh target): an error, or exactly the members whose
    complete fields are present, the others (all optional) at what `ResetDefault` gives them -/
theorem decStruct_cut (env : Env) (rk : String → Nat) (S : String) (fs : List Field) (vs : List Val)
    (p : Bytes) (hW : WellTyped env rk S (.struct vs)) (hfs : env.find S = some fs)
    (hcut : CutOK env fs vs p) :
    (∃ e r', decStruct env S (freshStruct env S) (Reader.mk0 p) = (.error e, r')) ∨
    (∃ k r' os, freshStruct env S = .struct os ∧ k ≤ fs.length ∧
      p = encMembers env (fs.take k) (vs.take k) ∧ (∀ f ∈ fs.drop k, f.req = false) ∧
      decStruct env S (freshStruct env S) (Reader.mk0 p) =
        (.ok (.struct (normMembers env (fs.take k) (vs.take k) ++
          absentVals env (decFuel env (Reader.mk0 p) - k) (fs.drop k)
            ((resetDefault env (decFuel env (Reader.mk0 p)) fs os).drop k))), r')) := by
  obtain ⟨hE, hwt⟩ := hW
  have hwm : WTm env fs vs := by simpa [WT, hfs] using hwt
  obtain ⟨hrk, hasc, hfok⟩ := hE S fs hfs
  obtain ⟨os, hos, hrm⟩ := ready_struct hfs (freshStruct_targetOK hE hfs)
  have htys : ∀ g ∈ fs, TyOK env rk (env.length + 1) g.ty :=
    fun g hg => TyOK.mono (by omega) (hfok g hg).2.1
  have hr : (Reader.mk0 p).rest = p := by simp [Reader.mk0, Reader.rest]
  obtain ⟨F, hF⟩ : ∃ F, decFuel env (Reader.mk0 p) = F + 1 :=
    ⟨decFuel env (Reader.mk0 p) - 1, by have := decFuel_pos env (Reader.mk0 p); omega⟩
  have hfuel : (env.width + 3) * p.length + fs.length + 3 ≤ decFuel env (Reader.mk0 p) := by
    have hw := find_width env S fs hfs
    unfold decFuel
    simp only [Reader.mk0, List.size_toArray]
    rw [Nat.mul_add]
    omega
  have hold : OldOKs env fs (resetDefault env (decFuel env (Reader.mk0 p)) fs os) := by
    rw [hF]; exact resetDefault_oldOK hE F fs os htys hrm
  have hm := decMembers_cut env rk hE (rk S) hrk vs fs _ (decFuel env (Reader.mk0 p)) (Reader.mk0 p) p
    hfok hasc hwm hold hcut hfuel hr
  rw [hos]
  unfold decStruct
  simp only [hfs]
  rcases hm with ⟨e, r', he⟩ | ⟨k, r', hk, hp, hopt, _, hdec⟩
  · left; rw [he]; exact ⟨e, r', rfl⟩
  · right
    refine ⟨k, r', os, rfl, hk, hp, hopt, ?_⟩
    rw [hdec]

/-- a cut at a member boundary is admissible, whatever the member kinds -/
theorem cutOK_boundary (env : Env) : ∀ (fs : List Field) (vs : List Val) (k : Nat),
    CutOK env fs vs (encMembers env (fs.take k) (vs.take k))
  | [], vs, k => by cases vs <;> simp [CutOK, encMembers]
  | f :: fs, [], k => by cases k <;> simp [CutOK, encMembers]
  | f :: fs, v :: vs, 0 => by simp [CutOK, encMembers]
  | f :: fs, v :: vs, k + 1 => by
    simp only [List.take_succ_cons, encMembers, CutOK]
    exact Or.inl ⟨_, rfl, cutOK_boundary env fs vs k⟩

theorem prefix_append_cases {α : Type} (p a b : List α) (h : p <+: a ++ b) :
    (∃ p', p = a ++ p' ∧ p' <+: b) ∨ (p.length < a.length ∧ p <+: a) := by
  obtain ⟨t, ht⟩ := h
  rcases List.append_eq_append_iff.mp ht with ⟨a', h1, h2⟩ | ⟨c', h1, h2⟩
  · cases a' with
    | nil => left; exact ⟨[], by simpa using h1.symm, List.nil_prefix⟩
    | cons x xs => right; subst h1; exact ⟨by simp, ⟨x :: xs, rfl⟩⟩
  · left; exact ⟨c', h1, ⟨t, h2.symm⟩⟩

/-- when every member is a scalar or enum with a tag below 15 (one-byte heads), EVERY prefix of
    the encoding is an admissible cut -/
theorem cutOK_of_atoms (env : Env) : ∀ (fs : List Field) (vs : List Val) (p : Bytes),
    (∀ f ∈ fs, f.ty.isAtom = true ∧ f.tag < 15) → WTm env fs vs →
    p <+: encMembers env fs vs → CutOK env fs vs p
  | [], vs, p, _, _, h => by
    cases vs <;> simp [encMembers] at h <;> simp [CutOK, h]
  | f :: fs, [], p, _, hwt, _ => by simp [WTm] at hwt
  | f :: fs, v :: vs, p, hat, hwt, h => by
    simp only [WTm] at hwt
    simp only [encMembers] at h
    simp only [CutOK]
    have hf := hat f (by simp)
    rcases prefix_append_cases p _ _ h with ⟨p', rfl, hp'⟩ | ⟨hlt, hpre⟩
    · exact Or.inl ⟨p', rfl, cutOK_of_atoms env fs vs p' (fun g hg => hat g (by simp [hg])) hwt.2 hp'⟩
    · by_cases hp : p = []
      · exact Or.inr (Or.inl hp)
      · right; right
        refine ⟨hf.1, hlt, hpre, ?_⟩
        -- a non-empty encoding starts with a one-byte head; a non-empty prefix contains it
        rcases encVar_headAt env f.tag f.req f.ty f.dflt v with h0 | ⟨hty, rest, h16, _, hh⟩
        · rw [h0] at hlt; simp at hlt
        · have hwh : writeHead hty f.tag = [byte (f.tag * 16 + hty)] := by
            unfold writeHead; rw [if_pos (by simp only [extTagThreshold]; omega)]
          rw [hh, hwh] at hpre
          obtain ⟨t, ht⟩ := hpre
          cases p with
          | nil => exact absurd rfl hp
          | cons x xs =>
            simp only [List.cons_append, List.nil_append, List.cons.injEq] at ht
            exact ⟨hty, xs, h16, by rw [hwh, ht.1]; rfl⟩


/-- member `i` of `absentVals` -/
theorem absentVals_getElem? (env : Env) : ∀ (fs : List Field) (os : List Val) (F i : Nat) (f : Field)
    (o : Val), fs[i]? = some f → os[i]? = some o →
    (absentVals env F fs os)[i]? = some (Evolve.absentVal env (F - i - 2) f.ty o)
  | [], _, _, _, _, _, hf, _ => by simp at hf
  | _ :: _, [], _, _, _, _, _, ho => by simp at ho
  | g :: gs, o0 :: os, F, 0, f, o, hf, ho => by
    simp at hf ho; subst hf ho; simp [absentVals]
  | g :: gs, o0 :: os, F, i + 1, f, o, hf, ho => by
    simp at hf ho
    have := absentVals_getElem? env gs os (F - 1) i f o hf ho
    simp only [absentVals, List.getElem?_cons_succ]
    rw [this]
    congr 2; omega

/-- an absent member that is not a struct holds `defaultOf`: its explicit IDL default, else (array
    of structs) reset structs, else the Go zero value of its type — never stale or partial data -/
theorem absentVals_reset_plain (env : Env) (G F k i : Nat) (fs : List Field) (os0 : List Val)
    (f : Field) (o0 : Val) (hf : fs[k + i]? = some f) (ho : os0[k + i]? = some o0)
    (hty : Evolve.isStructTy f.ty = false) :
    (absentVals env F (fs.drop k) ((resetDefault env (G+1) fs os0).drop k))[i]?
      = some (Evolve.defaultOf env G f) := by
  have h1 : (fs.drop k)[i]? = some f := by rw [List.getElem?_drop]; exact hf
  have h2 : ((resetDefault env (G+1) fs os0).drop k)[i]? = some (Evolve.resetMember env G f o0) := by
    rw [List.getElem?_drop]; exact Evolve.resetDefault_getElem? env G fs os0 (k + i) f o0 hf ho
  rw [absentVals_getElem? env _ _ F i f _ h1 h2, Evolve.absentVal_plain env _ _ _ hty,
    Evolve.resetMember_nonstruct env G f o0 hty]


/-- **cut exactly at a member boundary, all later members optional**: `ReadFrom`'s member loop
    succeeds with the present members' values followed by the `ResetDefault` values of the rest -/
theorem decMembers_boundary (env : Env) (rk : String → Nat) (hE : EnvWF env rk) (b : Nat) (hb : b ≤ env.length) :
    ∀ (k : Nat) (vs : List Val) (fs : List Field) (olds : List Val) (fuel : Nat) (r : Reader),
      (∀ f ∈ fs, FieldOK env rk b f) → TagsAsc fs → WTm env fs vs → OldOKs env fs olds →
      k ≤ fs.length → (∀ f ∈ fs.drop k, f.req = false) →
      (env.width + 3) * (encMembers env (fs.take k) (vs.take k)).length + fs.length + 3 ≤ fuel →
      r.rest = encMembers env (fs.take k) (vs.take k) →
      decMembers env fuel fs olds r =
        (.ok (normMembers env (fs.take k) (vs.take k) ++
              absentVals env (fuel - k) (fs.drop k) (olds.drop k)),
         r.adv (encMembers env (fs.take k) (vs.take k)).length)
  | 0, vs, fs, olds, fuel, r, hfs, _, _, hold, _, hopt, hfuel, hr => by
    have hnil : encMembers env (fs.take 0) (vs.take 0) = [] := by simp [encMembers]
    rw [hnil] at hr hfuel ⊢
    have hok := targetOks_of_oldOKs (fun f hf => (hfs f hf).dfltOK) hold
    have := (decMembers_eof env fs olds fuel r hr (by simp at hfuel; omega) hok).1 (by simpa using hopt)
    rw [this]; simp [normMembers]
  | k + 1, vs, fs, olds, fuel, r, hfs, hasc, hwt, hold, hk, hopt, hfuel, hr => by
    cases fs with
    | nil => simp at hk
    | cons g gs =>
      cases vs with
      | nil => simp [WTm] at hwt
      | cons v vs =>
        cases olds with
        | nil => simp [OldOKs] at hold
        | cons o os =>
          simp only [WTm] at hwt
          simp only [OldOKs] at hold
          simp only [List.take_succ_cons, encMembers, List.length_cons, List.length_append,
            List.drop_succ_cons] at hr hfuel hopt hk ⊢
          have hg := hfs g (by simp)
          have hasc' := List.pairwise_cons.mp hasc
          obtain ⟨f, rfl⟩ : ∃ f, fuel = f + 1 := ⟨fuel - 1, by omega⟩
          have hnt : NextTagGt g.tag (encMembers env (gs.take k) (vs.take k)) :=
            cutOK_nextTagGt env g.tag gs vs _
              (fun f' hf' => ⟨hasc'.1 f' hf', (hfs f' (by simp [hf'])).1⟩) (cutOK_boundary env gs vs k)
          have hneed := (fuelOK_all env v g.tag g.req g.ty g.dflt hwt.1).1
          rw [Nat.mul_add] at hfuel
          have hv := rt_all env rk hE v f g.tag g.req g.ty g.dflt o r _
            (by have := hg.1; omega) (TyOK.mono (by omega) hg.2.1) hg.dfltOK hwt.1 hold.1
            (fun _ => hnt) (by omega) hr
          rw [decMembers_cons, hv]
          simp only
          have hr' := r.rest_adv _ _ hr
          have ih := decMembers_boundary env rk hE b hb k vs gs os f _
            (fun f' hf' => hfs f' (by simp [hf'])) hasc'.2 hwt.2 hold.2 (by omega) hopt (by omega) hr'
          rw [ih]
          simp [normMembers, Reader.adv_adv]

/-- `ReadFrom` (fresh target) on the encoding cut exactly behind member `k`, all later members
    optional: success, with exactly the present members and the defaults of the others -/
theorem decStruct_boundary (env : Env) (rk : String → Nat) (S : String) (fs : List Field) (vs : List Val)
    (k : Nat) (hW : WellTyped env rk S (.struct vs)) (hfs : env.find S = some fs)
    (hk : k ≤ fs.length) (hopt : ∀ f ∈ fs.drop k, f.req = false) :
    ∃ os r', freshStruct env S = .struct os ∧
      decStruct env S (freshStruct env S) (Reader.mk0 (encMembers env (fs.take k) (vs.take k))) =
        (.ok (.struct (normMembers env (fs.take k) (vs.take k) ++
          absentVals env (decFuel env (Reader.mk0 (encMembers env (fs.take k) (vs.take k))) - k)
            (fs.drop k)
            ((resetDefault env (decFuel env (Reader.mk0 (encMembers env (fs.take k) (vs.take k)))) fs os).drop k))),
         r') := by
  obtain ⟨hE, hwt⟩ := hW
  have hwm : WTm env fs vs := by simpa [WT, hfs] using hwt
  obtain ⟨hrk, hasc, hfok⟩ := hE S fs hfs
  obtain ⟨os, hos, hrm⟩ := ready_struct hfs (freshStruct_targetOK hE hfs)
  have htys : ∀ g ∈ fs, TyOK env rk (env.length + 1) g.ty :=
    fun g hg => TyOK.mono (by omega) (hfok g hg).2.1
  generalize hp : encMembers env (fs.take k) (vs.take k) = p
  have hr : (Reader.mk0 p).rest = p := by simp [Reader.mk0, Reader.rest]
  obtain ⟨F, hF⟩ : ∃ F, decFuel env (Reader.mk0 p) = F + 1 :=
    ⟨decFuel env (Reader.mk0 p) - 1, by have := decFuel_pos env (Reader.mk0 p); omega⟩
  have hfuel : (env.width + 3) * p.length + fs.length + 3 ≤ decFuel env (Reader.mk0 p) := by
    have hw := find_width env S fs hfs
    unfold decFuel
    simp only [Reader.mk0, List.size_toArray]
    rw [Nat.mul_add]
    omega
  have hold : OldOKs env fs (resetDefault env (decFuel env (Reader.mk0 p)) fs os) := by
    rw [hF]; exact resetDefault_oldOK hE F fs os htys hrm
  have hm := decMembers_boundary env rk hE (rk S) hrk k vs fs _ (decFuel env (Reader.mk0 p)) (Reader.mk0 p)
    hfok hasc hwm hold hk hopt (by rw [hp]; exact hfuel) (by rw [hp]; exact hr)
  refine ⟨os, (Reader.mk0 p).adv p.length, hos, ?_⟩
  rw [hos]
  unfold decStruct
  simp only [hfs]
  rw [hm, hp]

/-! ### a concrete schema for the examples of `Props/C06.lean` -/

/-- bytes from numerals -/
def C06.bsP (l : List Nat) : Bytes := l.map byte

/-- `struct P { 0 require int a; 1 optional string b; };` -/
def C06.envP : Env := [("P", [⟨0, true, .i32, none⟩, ⟨1, false, .str, none⟩])]
def C06.rkP : String → Nat := fun _ => 0
def C06.fsP : List Field := [⟨0, true, .i32, none⟩, ⟨1, false, .str, none⟩]
/-- `a = 0x1234, b = "ab"` -/
def C06.vsP : List Val := [.int 0x1234, .str (C06.bsP [97, 98])]

theorem C06.findP : C06.envP.find "P" = some C06.fsP := by simp [C06.envP, C06.fsP, Env.find]

theorem C06.envP_wf : EnvWF C06.envP C06.rkP := by
  intro name fs h
  simp only [C06.envP, Env.find] at h
  split at h
  · cases h
    subst_vars
    refine ⟨by decide, by simp [TagsAsc], ?_⟩
    intro f hf
    simp only [List.mem_cons, List.not_mem_nil, or_false] at hf
    rcases hf with rfl | rfl <;> simp [FieldOK, TyOK]
  · cases h

theorem C06.vP_wt : WellTyped C06.envP C06.rkP "P" (.struct C06.vsP) := by
  refine ⟨C06.envP_wf, ?_⟩
  simp [C06.vsP, WT, WTm, ScalarOK, C06.findP, C06.fsP, C06.bsP]

/-- the encoding: SHORT 0x1234 under tag 0, STRING1 "ab" under tag 1 -/
theorem C06.encP : encMembers C06.envP C06.fsP C06.vsP = C06.bsP [0x01, 0x12, 0x34, 0x16, 2, 97, 98] := by
  simp [C06.fsP, C06.vsP, encMembers, encVar, writeScalar, Ty.isScalar]
  decide


theorem C06.encP1 : encMembers C06.envP (C06.fsP.take 1) (C06.vsP.take 1) = C06.bsP [0x01, 0x12, 0x34] := by
  simp [C06.fsP, C06.vsP, encMembers, encVar, writeScalar, Ty.isScalar]
  decide


end Tars
