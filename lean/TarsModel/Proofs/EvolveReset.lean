import TarsModel.Proofs.Evolve

/-! `ResetDefault`, the reader state at each member of `ReadFrom`, absent members at struct level (C04). -/
namespace Tars
namespace Evolve
open Consts WFField Skip

def isStructTy : Ty → Bool
  | .struct _ => true
  | _ => false

/-- a fixed-size array of structs (`S x[N]`) -/
def isArrStructTy : Ty → Bool
  | .arr _ (.struct _) => true
  | _ => false

/-- the value `ResetDefault` assigns to a member that is not a struct, whatever it held: the
    explicit IDL default if there is one; otherwise, for a fixed-size array of structs, `n` copies
    of the struct after its own `ResetDefault` (`st.X = [N]S{}; for i := range st.X {
    st.X[i].ResetDefault() }`); otherwise the Go zero value of the type -/
def defaultOf (env : Env) (fuel : Nat) (f : Field) : Val :=
  match f.dflt with
  | some d => d
  | none =>
    match f.ty with
    | .arr n (.struct s) =>
      match env.find s with
      | some ifs =>
        Val.list (List.replicate n (Val.struct (resetDefault env fuel ifs (ifs.map fun g => zeroOf env g.ty))))
      | none => zeroOf env f.ty
    | t => zeroOf env t

/-- what `ResetDefault` leaves in one member: a nested struct without explicit default is reset
    recursively; every other member gets `defaultOf` -/
def resetMember (env : Env) (fuel : Nat) (f : Field) (v : Val) : Val :=
  match f.dflt with
  | some d => d
  | none =>
    match f.ty with
    | .struct _ =>
      match f.ty, v with
      | .struct name, .struct inner =>
        match env.find name with
        | some ifs => .struct (resetDefault env fuel ifs inner)
        | none => v
      | _, _ => v
    | .arr n (.struct s) =>
      match env.find s with
      | some ifs =>
        Val.list (List.replicate n (Val.struct (resetDefault env fuel ifs (ifs.map fun g => zeroOf env g.ty))))
      | none => zeroOf env f.ty
    | t => zeroOf env t

theorem resetDefault_cons (env : Env) (F : Nat) (f : Field) (fs : List Field) (v : Val) (vs : List Val) :
    resetDefault env (F+1) (f :: fs) (v :: vs) = resetMember env F f v :: resetDefault env (F+1) fs vs := by
  rw [resetDefault.eq_def]
  simp only
  unfold resetMember
  rfl

theorem resetDefault_nil_left (env : Env) (F : Nat) (vs : List Val) :
    resetDefault env (F+1) [] vs = [] := by
  rw [resetDefault.eq_def]

theorem resetDefault_nil_right (env : Env) (F : Nat) (fs : List Field) :
    resetDefault env (F+1) fs [] = [] := by
  cases fs <;> rw [resetDefault.eq_def]

theorem resetDefault_getElem? (env : Env) (F : Nat) (fs : List Field) (vs : List Val) (i : Nat)
    (f : Field) (v : Val) (hf : fs[i]? = some f) (hv : vs[i]? = some v) :
    (resetDefault env (F+1) fs vs)[i]? = some (resetMember env F f v) := by
  induction fs generalizing vs i with
  | nil => simp at hf
  | cons f0 fs ih =>
    cases vs with
    | nil => simp at hv
    | cons v0 vs =>
      rw [resetDefault_cons]
      cases i with
      | zero => simp at hf hv; subst hf hv; simp
      | succ i => simp at hf hv ⊢; exact ih vs i hf hv

theorem resetDefault_length (env : Env) (F : Nat) (fs : List Field) (vs : List Val)
    (h : fs.length = vs.length) : (resetDefault env (F+1) fs vs).length = fs.length := by
  induction fs generalizing vs with
  | nil => simp [resetDefault_nil_left]
  | cons f0 fs ih =>
    cases vs with
    | nil => simp at h
    | cons v0 vs => rw [resetDefault_cons]; simp at h ⊢; exact ih vs h

/-! ### `ResetDefault` does not depend on the model's fuel once it exceeds the struct nesting of the target -/

mutual
/-- nesting depth of struct values directly inside struct values (what `ResetDefault` descends) -/
def valDepth : Val → Nat
  | .struct vs => 1 + listDepth vs
  | _ => 0
def listDepth : List Val → Nat
  | [] => 0
  | v :: vs => max (valDepth v) (listDepth vs)
end

/-- no struct of the schema has a fixed-size array of structs as a member (for such members the
    value `ResetDefault` assigns involves a nested `ResetDefault` on zero values, whose model fuel
    is not bounded by the nesting of the target) -/
def NoStructArrays (env : Env) : Prop :=
  ∀ s ifs, env.find s = some ifs → ∀ g ∈ ifs, isArrStructTy g.ty = false

theorem resetMember_fuel (env : Env) (F G : Nat) (f : Field) (v : Val)
    (ih : ∀ name ifs inner, f.ty = .struct name → env.find name = some ifs → v = .struct inner →
      resetDefault env F ifs inner = resetDefault env G ifs inner)
    (iha : ∀ n s ifs, f.ty = .arr n (.struct s) → env.find s = some ifs →
      resetDefault env F ifs (ifs.map fun g => zeroOf env g.ty)
        = resetDefault env G ifs (ifs.map fun g => zeroOf env g.ty)) :
    resetMember env F f v = resetMember env G f v := by
  unfold resetMember
  cases f.dflt with
  | some d => rfl
  | none =>
    simp only
    split
    · split
      · next _ name inner hn =>
        cases hfind : env.find name with
        | none => rfl
        | some ifs => simp only; rw [ih name ifs inner hn hfind rfl]
      · rfl
    · next n s hty =>
      cases hfind : env.find s with
      | none => rfl
      | some ifs => simp only; rw [iha n s ifs hty hfind]
    · rfl

/-- for a schema without arrays of structs, `ResetDefault` is independent of the model fuel once
    it exceeds the struct nesting of the target -/
theorem resetDefault_fuel (env : Env) (hna : NoStructArrays env) (F : Nat) :
    ∀ (F' : Nat) (fs : List Field) (vs : List Val), (∀ g ∈ fs, isArrStructTy g.ty = false) →
      listDepth vs < F → listDepth vs < F' →
      resetDefault env F fs vs = resetDefault env F' fs vs := by
  induction F with
  | zero => intro F' fs vs _ h; omega
  | succ F ihF =>
    intro F' fs vs hfs h h'
    obtain ⟨G, rfl⟩ : ∃ G, F' = G + 1 := ⟨F' - 1, by omega⟩
    induction fs generalizing vs with
    | nil => rw [resetDefault_nil_left, resetDefault_nil_left]
    | cons f fs ih =>
      cases vs with
      | nil => rw [resetDefault_nil_right, resetDefault_nil_right]
      | cons v vs =>
        simp only [listDepth] at h h'
        rw [resetDefault_cons, resetDefault_cons,
          ih vs (fun g hg => hfs g (by simp [hg])) (by omega) (by omega)]
        congr 1
        apply resetMember_fuel env F G f v
        · intro name ifs inner _ hfind hv
          subst hv
          simp only [valDepth] at h h'
          exact ihF G ifs inner (hna name ifs hfind) (by omega) (by omega)
        · intro n s ifs hty _
          have := hfs f (by simp)
          rw [hty] at this; simp [isArrStructTy] at this

/-! ### … and, for every acyclic schema, once it exceeds the rank of the struct -/

/-- the type holds a struct `s` by value: as a member, or as the element of a fixed-size array -/
def StructRef (ty : Ty) (s : String) : Prop := ty = .struct s ∨ ∃ n, ty = .arr n (.struct s)

/-- By-value struct nesting is acyclic: `rk` ranks the struct names (ranks `≤ env.length`) so that
    a struct holds by value — as a member or as the element of a fixed-size array — only structs
    of smaller rank.  (Vectors and maps of structs are not restricted: recursion through them is
    fine.)  Go rejects every schema excluded here at compile time (`invalid recursive type`): the
    struct tars2go emits for it would contain itself. -/
def EnvAcyclic (env : Env) (rk : String → Nat) : Prop :=
  ∀ s ifs, env.find s = some ifs → rk s ≤ env.length ∧
    ∀ g ∈ ifs, ∀ s' ifs', StructRef g.ty s' → env.find s' = some ifs' → rk s' < rk s

/-- for an acyclic schema `ResetDefault` is independent of the model fuel once it exceeds the rank
    of the structs the member list holds by value — whatever the target holds -/
theorem resetDefault_acyclic (env : Env) (rk : String → Nat) (hac : EnvAcyclic env rk) (F : Nat) :
    ∀ (k F' : Nat) (fs : List Field) (vs : List Val),
      (∀ g ∈ fs, ∀ s' ifs', StructRef g.ty s' → env.find s' = some ifs' → rk s' < k) →
      k + 1 ≤ F → k + 1 ≤ F' → resetDefault env F fs vs = resetDefault env F' fs vs := by
  induction F with
  | zero => intro k F' fs vs _ h; omega
  | succ F ihF =>
    intro k F' fs vs hfs h h'
    obtain ⟨G, rfl⟩ : ∃ G, F' = G + 1 := ⟨F' - 1, by omega⟩
    induction fs generalizing vs with
    | nil => rw [resetDefault_nil_left, resetDefault_nil_left]
    | cons f fs ih =>
      cases vs with
      | nil => rw [resetDefault_nil_right, resetDefault_nil_right]
      | cons v vs =>
        rw [resetDefault_cons, resetDefault_cons, ih vs (fun g hg => hfs g (by simp [hg]))]
        congr 1
        apply resetMember_fuel env F G f v
        · intro name ifs inner hty hfind _
          have hlt := hfs f (by simp) name ifs (.inl hty) hfind
          exact ihF (rk name) G ifs inner (hac name ifs hfind).2 (by omega) (by omega)
        · intro n s ifs hty hfind
          have hlt := hfs f (by simp) s ifs (.inr ⟨n, hty⟩) hfind
          exact ihF (rk s) G ifs _ (hac s ifs hfind).2 (by omega) (by omega)

/-- `ResetDefault` of a struct of an acyclic schema: any two fuels above the rank of the struct
    (its by-value nesting depth, at most `env.length`) agree -/
theorem resetDefault_stable_acyclic (env : Env) (rk : String → Nat) (hac : EnvAcyclic env rk)
    (S : String) (fs : List Field) (hfind : env.find S = some fs) (vs : List Val) (F F' : Nat)
    (hF : rk S < F) (hF' : rk S < F') :
    resetDefault env F fs vs = resetDefault env F' fs vs :=
  resetDefault_acyclic env rk hac F (rk S) F' fs vs (hac S fs hfind).2 hF hF'

theorem decFuel_ge_six (env : Env) (r : Reader) : 6 ≤ decFuel env r := by
  unfold decFuel
  have : 3 * 2 ≤ (env.width + 3) * (r.data.size + 2) := Nat.mul_le_mul (by omega) (by omega)
  omega

/-- the model fuel of `ReadFrom` exceeds the rank of every struct of an acyclic schema -/
theorem rank_lt_decFuel (env : Env) (rk : String → Nat) (hac : EnvAcyclic env rk) (S : String)
    (fs : List Field) (hfind : env.find S = some fs) (r : Reader) : rk S < decFuel env r := by
  have h1 := (hac S fs hfind).1
  have h2 : 3 * 2 ≤ (env.width + 3) * (r.data.size + 2) := Nat.mul_le_mul (by omega) (by omega)
  unfold decFuel; omega

/-- hence `ResetDefault` as called by `ReadFrom` does not depend on the input size -/
theorem resetDefault_decFuel (env : Env) (rk : String → Nat) (hac : EnvAcyclic env rk) (S : String)
    (fs : List Field) (hfind : env.find S = some fs) (vs : List Val) (r r' : Reader) :
    resetDefault env (decFuel env r') fs vs = resetDefault env (decFuel env r) fs vs :=
  resetDefault_stable_acyclic env rk hac S fs hfind vs _ _
    (rank_lt_decFuel env rk hac S fs hfind r') (rank_lt_decFuel env rk hac S fs hfind r)

/-! ### the reader state at each member -/

/-- the reader when member `i`'s turn comes in the member sequence of `ReadFrom`: the state after
    the reads of the first `i` members -/
def readerAt (env : Env) (fuel : Nat) (fs : List Field) (olds : List Val) (r : Reader) (i : Nat) :
    Reader := (decMembers env fuel (fs.take i) (olds.take i) r).2

theorem decMembers_zero (env : Env) (fs : List Field) (os : List Val) (r : Reader) :
    decMembers env 0 fs os r = (.error .fuel, r) := by
  unfold decMembers; rfl

/-- every component of the result of `ReadFrom` is what the generated read of that member returned,
    on the reader state `readerAt … i`, with the member's previous value as target -/
theorem decMembers_member (env : Env) (i : Nat) :
    ∀ (fuel : Nat) (fs : List Field) (olds : List Val) (r r' : Reader) (vs : List Val),
    decMembers env fuel fs olds r = (.ok vs, r') →
    ∀ (f : Field) (o : Val), fs[i]? = some f → olds[i]? = some o →
    ∃ v r'', decVar env (fuel - 1 - i) f.tag f.req f.ty o (readerAt env fuel fs olds r i) = (.ok v, r'')
      ∧ vs[i]? = some v := by
  induction i with
  | zero =>
    intro fuel fs olds r r' vs h f o hf ho
    cases fuel with
    | zero => rw [decMembers_zero] at h; cases h
    | succ F =>
      cases fs with
      | nil => simp at hf
      | cons f0 fs' =>
        cases olds with
        | nil => simp at ho
        | cons o0 os =>
          simp at hf ho; subst hf ho
          rcases hdv : decVar env F f0.tag f0.req f0.ty o0 r with ⟨e | v0, r1⟩
          · rw [decMembers_cons_err env F _ _ _ _ r r1 e hdv] at h; cases h
          · rw [decMembers_cons_ok env F _ _ _ _ r r1 v0 hdv] at h
            rcases hm : decMembers env F fs' os r1 with ⟨e | vs', r2⟩
            · rw [hm] at h; simp [Except.map] at h
            · rw [hm] at h
              simp [Except.map] at h
              refine ⟨v0, r1, ?_, by rw [← h.1]; simp⟩
              simp [readerAt, decMembers_nil, hdv]
  | succ i ih =>
    intro fuel fs olds r r' vs h f o hf ho
    cases fuel with
    | zero => rw [decMembers_zero] at h; cases h
    | succ F =>
      cases fs with
      | nil => simp at hf
      | cons f0 fs' =>
        cases olds with
        | nil => simp at ho
        | cons o0 os =>
          simp at hf ho
          rcases hdv : decVar env F f0.tag f0.req f0.ty o0 r with ⟨e | v0, r1⟩
          · rw [decMembers_cons_err env F _ _ _ _ r r1 e hdv] at h; cases h
          · rw [decMembers_cons_ok env F _ _ _ _ r r1 v0 hdv] at h
            rcases hm : decMembers env F fs' os r1 with ⟨e | vs', r2⟩
            · rw [hm] at h; simp [Except.map] at h
            · rw [hm] at h
              simp [Except.map] at h
              obtain ⟨v, r'', h1, h2⟩ := ih F fs' os r1 r2 vs' hm f o hf ho
              refine ⟨v, r'', ?_, by rw [← h.1]; simpa using h2⟩
              have : readerAt env (F+1) (f0 :: fs') (o0 :: os) r (i+1) = readerAt env F fs' os r1 i := by
                simp [readerAt, decMembers_cons_ok env F _ _ _ _ r r1 v0 hdv]
              rw [this]
              have : F + 1 - 1 - (i + 1) = F - 1 - i := by omega
              rw [this]; exact h1

theorem decVar_zero (env : Env) (tag : Nat) (req : Bool) (ty : Ty) (old : Val) (r : Reader) :
    decVar env 0 tag req ty old r = (.error .fuel, r) := by
  unfold decVar; rfl

/-- **absent optional member, struct level**: if `ReadFrom` succeeds and, when member `i`'s turn
    comes, its tag is not there (`After`: end of input, StructEnd, or a higher tag), the member's
    result is `absentVal` of its previous value -/
theorem decMembers_absent_opt (env : Env) (fuel : Nat) (fs : List Field) (olds : List Val)
    (r r' : Reader) (vs : List Val) (h : decMembers env fuel fs olds r = (.ok vs, r'))
    (i : Nat) (f : Field) (o : Val) (hf : fs[i]? = some f) (ho : olds[i]? = some o)
    (hopt : f.req = false) (hok : targetOk env f.ty o = true)
    (habs : After f.tag (readerAt env fuel fs olds r i).rest) :
    vs[i]? = some (absentVal env (fuel - 1 - i - 1) f.ty o) := by
  obtain ⟨v, r'', h1, h2⟩ := decMembers_member env i fuel fs olds r r' vs h f o hf ho
  rcases hF : fuel - 1 - i with _ | F
  · rw [hF, decVar_zero] at h1; cases h1
  · rw [hF, hopt, decVar_absent_opt env F f.tag f.ty o _ hok habs] at h1
    simp only [Prod.mk.injEq, Except.ok.injEq] at h1
    rw [h2, ← h1.1]; simp

/-- **absent required member, struct level**: `ReadFrom` does not succeed -/
theorem decMembers_missing_req (env : Env) (fuel : Nat) (fs : List Field) (olds : List Val)
    (r : Reader) (i : Nat) (f : Field) (o : Val) (hf : fs[i]? = some f) (ho : olds[i]? = some o)
    (hreq : f.req = true) (hok : targetOk env f.ty o = true)
    (habs : After f.tag (readerAt env fuel fs olds r i).rest) :
    ∀ vs r', decMembers env fuel fs olds r ≠ (.ok vs, r') := by
  intro vs r' h
  obtain ⟨v, r'', h1, _⟩ := decMembers_member env i fuel fs olds r r' vs h f o hf ho
  rcases hF : fuel - 1 - i with _ | F
  · rw [hF, decVar_zero] at h1; cases h1
  · have := decVar_missing_req env F f.tag f.ty o _ hok habs
    rw [hF, hreq] at h1
    rw [h1] at this; cases this

/-! ### `ReadFrom` on a whole struct -/

theorem resetMember_dflt (env : Env) (F : Nat) (f : Field) (v d : Val) (h : f.dflt = some d) :
    resetMember env F f v = d := by simp [resetMember, h]

/-- a member that is not a struct is assigned `defaultOf`, whatever it held before -/
theorem resetMember_nonstruct (env : Env) (F : Nat) (f : Field) (v : Val)
    (hty : isStructTy f.ty = false) : resetMember env F f v = defaultOf env F f := by
  obtain ⟨tag, req, ty, dflt⟩ := f
  unfold resetMember defaultOf
  cases dflt with
  | some d => rfl
  | none =>
    cases ty with
    | struct name => simp [isStructTy] at hty
    | arr n e => cases e <;> rfl
    | _ => rfl

theorem defaultOf_dflt (env : Env) (F : Nat) (f : Field) (d : Val) (h : f.dflt = some d) :
    defaultOf env F f = d := by simp [defaultOf, h]

/-- no explicit default and not an array of structs: the Go zero value -/
theorem defaultOf_plain (env : Env) (F : Nat) (f : Field) (h : f.dflt = none)
    (hty : isArrStructTy f.ty = false) : defaultOf env F f = zeroOf env f.ty := by
  unfold defaultOf
  rw [h]
  simp only
  split
  · simp_all [isArrStructTy]
  · rfl

/-- no explicit default, array of structs: `n` copies of the struct after `ResetDefault` -/
theorem defaultOf_arr (env : Env) (F : Nat) (f : Field) (n : Nat) (s : String) (ifs : List Field)
    (h : f.dflt = none) (hty : f.ty = .arr n (.struct s)) (hfind : env.find s = some ifs) :
    defaultOf env F f = .list (List.replicate n
      (.struct (resetDefault env F ifs (ifs.map fun g => zeroOf env g.ty)))) := by
  unfold defaultOf
  rw [h, hty]
  simp [hfind]

theorem resetMember_struct (env : Env) (F : Nat) (f : Field) (name : String) (inner : List Val)
    (ifs : List Field) (h : f.dflt = none) (hty : f.ty = .struct name) (hfind : env.find name = some ifs) :
    resetMember env F f (.struct inner) = .struct (resetDefault env F ifs inner) := by
  unfold resetMember
  rw [h, hty]
  simp [hfind]

theorem absentVal_plain (env : Env) (F : Nat) (ty : Ty) (v : Val) (hty : isStructTy ty = false) :
    absentVal env F ty v = v := by
  unfold absentVal
  split
  · simp [isStructTy] at hty
  · rfl

theorem absentVal_struct (env : Env) (F : Nat) (name : String) (inner : List Val) (ifs : List Field)
    (hfind : env.find name = some ifs) :
    absentVal env F (.struct name) (.struct inner) = .struct (resetDefault env F ifs inner) := by
  simp [absentVal, hfind]

theorem decFuel_pos (env : Env) (r : Reader) : decFuel env r = (decFuel env r - 1) + 1 := by
  have : 0 < decFuel env r := by
    unfold decFuel
    have : 0 < (env.width + 3) * (r.data.size + 2) := Nat.mul_pos (by omega) (by omega)
    omega
  omega

/-- the reader when member `i`'s turn comes in `st.ReadFrom(readBuf)` -/
def readerBefore (env : Env) (S : String) (old : Val) (r : Reader) (i : Nat) : Reader :=
  match env.find S, old with
  | some fs, .struct ovs =>
    readerAt env (decFuel env r) fs (resetDefault env (decFuel env r) fs ovs) r i
  | _, _ => r

/-- `ReadFrom` on a struct: the result for an optional member whose tag is not in the input when its
    turn comes is `absentVal` of what `ResetDefault` left in the member -/
theorem decStruct_absent_opt (env : Env) (S : String) (fs : List Field) (ovs vs : List Val)
    (r r' : Reader) (hS : env.find S = some fs)
    (h : decStruct env S (.struct ovs) r = (.ok (.struct vs), r'))
    (i : Nat) (f : Field) (o : Val) (hf : fs[i]? = some f) (ho : ovs[i]? = some o)
    (hopt : f.req = false)
    (hok : targetOk env f.ty (resetMember env (decFuel env r - 1) f o) = true)
    (habs : After f.tag (readerBefore env S (.struct ovs) r i).rest) :
    vs[i]? = some (absentVal env (decFuel env r - 1 - i - 1) f.ty
      (resetMember env (decFuel env r - 1) f o)) := by
  unfold decStruct at h
  simp only [hS] at h
  rcases hm : decMembers env (decFuel env r) fs (resetDefault env (decFuel env r) fs ovs) r
    with ⟨e | vs', r1⟩
  · rw [hm] at h; cases h
  · rw [hm] at h
    simp only [Prod.mk.injEq, Except.ok.injEq, Val.struct.injEq] at h
    obtain ⟨rfl, rfl⟩ := h
    have ho' : (resetDefault env (decFuel env r) fs ovs)[i]?
        = some (resetMember env (decFuel env r - 1) f o) := by
      rw [decFuel_pos]
      exact resetDefault_getElem? env _ fs ovs i f o hf ho
    have habs' : After f.tag
        (readerAt env (decFuel env r) fs (resetDefault env (decFuel env r) fs ovs) r i).rest := by
      simpa [readerBefore, hS] using habs
    exact decMembers_absent_opt env _ fs _ r r1 vs' hm i f _ hf ho' hopt hok habs'

/-- `ReadFrom` on a struct does not succeed when a required member's tag is not in the input when
    its turn comes -/
theorem decStruct_missing_req (env : Env) (S : String) (fs : List Field) (ovs : List Val)
    (r : Reader) (hS : env.find S = some fs)
    (i : Nat) (f : Field) (o : Val) (hf : fs[i]? = some f) (ho : ovs[i]? = some o)
    (hreq : f.req = true)
    (hok : targetOk env f.ty (resetMember env (decFuel env r - 1) f o) = true)
    (habs : After f.tag (readerBefore env S (.struct ovs) r i).rest) :
    ∃ e r', decStruct env S (.struct ovs) r = (.error e, r') := by
  unfold decStruct
  simp only [hS]
  rcases hm : decMembers env (decFuel env r) fs (resetDefault env (decFuel env r) fs ovs) r
    with ⟨e | vs', r1⟩
  · exact ⟨e, r1, rfl⟩
  · exfalso
    have ho' : (resetDefault env (decFuel env r) fs ovs)[i]?
        = some (resetMember env (decFuel env r - 1) f o) := by
      rw [decFuel_pos]
      exact resetDefault_getElem? env _ fs ovs i f o hf ho
    have habs' : After f.tag
        (readerAt env (decFuel env r) fs (resetDefault env (decFuel env r) fs ovs) r i).rest := by
      simpa [readerBefore, hS] using habs
    exact decMembers_missing_req env _ fs _ r i f _ hf ho' hreq hok habs' vs' r1 hm

end Evolve
end Tars
