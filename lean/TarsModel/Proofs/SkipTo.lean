import TarsModel.Proofs.Skip

/-! The skip family only moves forward, `SkipToNoCheck` does not depend on its loop fuel, and it
    passes over well-formed fields with a lower tag (C04, second clause). -/
namespace Tars
namespace Skip
open Consts WFField

/-- `r'` is `r` moved forward (same input) -/
def Fwd (r r' : Reader) : Prop := r'.data = r.data ∧ r.pos ≤ r'.pos

theorem Fwd.refl (r : Reader) : Fwd r r := ⟨rfl, Nat.le_refl _⟩
theorem Fwd.trans {a b c : Reader} (h1 : Fwd a b) (h2 : Fwd b c) : Fwd a c :=
  ⟨h2.1.trans h1.1, Nat.le_trans h1.2 h2.2⟩

theorem readByte_ok {r r1 : Reader} {b : Byte} (h : readByte r = (.ok b, r1)) :
    r1 = r.adv 1 ∧ r.pos < r.data.size := by
  unfold readByte at h
  split at h
  · rename_i b' hb
    simp only [Prod.mk.injEq, Except.ok.injEq] at h
    refine ⟨h.2.symm, ?_⟩
    by_cases hp : r.pos < r.data.size
    · exact hp
    · rw [Array.getElem?_eq_none (by omega)] at hb; cases hb
  · simp at h

theorem readByte_err {r r1 : Reader} {e : Err} (h : readByte r = (.error e, r1)) : r1 = r := by
  unfold readByte at h
  split at h
  · simp at h
  · simp only [Prod.mk.injEq] at h; exact h.2.symm

theorem readByte_fwd (r : Reader) : Fwd r (readByte r).2 := by
  unfold readByte; split <;> simp [Fwd]

theorem readFull_fwd (n : Nat) (r : Reader) : Fwd r (readFull n r).2 := by
  unfold readFull
  by_cases h0 : n = 0
  · simp [h0, Fwd]
  by_cases h1 : r.pos ≥ r.data.size
  · simp [h0, h1, Fwd]
  by_cases h2 : (takeFrom r.data r.pos n).length < n
  · simp [h0, h1, h2, Fwd]
  · simp [h0, h1, h2, Fwd]

theorem bReadU_fwd (n : Nat) (r : Reader) : Fwd r (bReadU n r).2 := by
  have := readFull_fwd n r
  unfold bReadU
  split <;> simp_all

theorem bReadU8_fwd (r : Reader) : Fwd r (bReadU8 r).2 := by
  have := readByte_fwd r
  unfold bReadU8
  split <;> simp_all

theorem skip_fwd (n : Int) (r : Reader) : Fwd r (skip n r).2 := by
  unfold skip seekCur; split <;> simp [Fwd]

/-- `readHead` moves forward; strictly when it succeeds -/
theorem readHead_fwd (r : Reader) : Fwd r (readHead r).2 := by
  unfold readHead
  rcases h1 : readByte r with ⟨_ | d, r1⟩
  · simp [readByte_err h1, Fwd.refl]
  · obtain ⟨rfl, _⟩ := readByte_ok h1
    simp only
    split
    · rcases h2 : readByte (r.adv 1) with ⟨_ | d2, r2⟩
      · simp [readByte_err h2, Fwd]
      · obtain ⟨rfl, _⟩ := readByte_ok h2
        simp [Fwd]
    · simp [Fwd]

theorem readHead_ok {r r1 : Reader} {x : Nat × Nat} (h : readHead r = (.ok x, r1)) :
    r1.data = r.data ∧ r.pos < r1.pos ∧ r.pos < r.data.size := by
  unfold readHead at h
  rcases h1 : readByte r with ⟨_ | d, r0⟩
  · simp [h1] at h
  · obtain ⟨rfl, hp⟩ := readByte_ok h1
    simp only [h1] at h
    split at h
    · rcases h2 : readByte (r.adv 1) with ⟨_ | d2, r2⟩
      · simp [h2] at h
      · obtain ⟨rfl, _⟩ := readByte_ok h2
        simp only [h2, Prod.mk.injEq] at h
        rw [← h.2]; simp; omega
    · simp only [Prod.mk.injEq] at h
      rw [← h.2]; simp; omega

theorem readLen_fwd (r : Reader) : Fwd r (readLen r).2 := by
  unfold readLen
  have hh := readHead_fwd r
  rcases h1 : readHead r with ⟨_ | ⟨ty, tag⟩, r1⟩
  · simpa [h1] using hh
  · rw [h1] at hh
    simp only
    have h8 := bReadU8_fwd r1
    have h2 := bReadU_fwd 2 r1
    have h4 := bReadU_fwd 4 r1
    repeat' split
    all_goals first | exact hh | (simp_all; done) | skip
    all_goals (rename_i heq; first | (rw [heq] at h8; exact hh.trans h8) | (rw [heq] at h2; exact hh.trans h2) | (rw [heq] at h4; exact hh.trans h4))

/-- the skip family only moves forward, whatever the input (also on errors) -/
theorem skip_family_fwd (fuel : Nat) :
    (∀ ty r, Fwd r (skipField fuel ty r).2) ∧ (∀ n r, Fwd r (skipElems fuel n r).2) ∧
    (∀ r, Fwd r (skipToStructEnd fuel r).2) := by
  induction fuel with
  | zero =>
    refine ⟨fun ty r => ?_, fun n r => ?_, fun r => ?_⟩
    · unfold skipField; exact Fwd.refl r
    · unfold skipElems; exact Fwd.refl r
    · unfold skipToStructEnd; exact Fwd.refl r
  | succ F ih =>
    obtain ⟨ihF, ihE, ihS⟩ := ih
    refine ⟨fun ty r => ?_, fun n r => ?_, fun r => ?_⟩
    · unfold skipField
      by_cases hc1 : ty = tyBYTE
      · rw [if_pos hc1]
        exact skip_fwd _ _
      rw [if_neg hc1]
      by_cases hc2 : ty = tySHORT
      · rw [if_pos hc2]
        exact skip_fwd _ _
      rw [if_neg hc2]
      by_cases hc3 : ty = tyINT
      · rw [if_pos hc3]
        exact skip_fwd _ _
      rw [if_neg hc3]
      by_cases hc4 : ty = tyLONG
      · rw [if_pos hc4]
        exact skip_fwd _ _
      rw [if_neg hc4]
      by_cases hc5 : ty = tyFLOAT
      · rw [if_pos hc5]
        exact skip_fwd _ _
      rw [if_neg hc5]
      by_cases hc6 : ty = tyDOUBLE
      · rw [if_pos hc6]
        exact skip_fwd _ _
      rw [if_neg hc6]
      by_cases hc7 : ty = tySTRING1
      · rw [if_pos hc7]
        have := readByte_fwd r
        split <;> rename_i heq <;> rw [heq] at this
        · exact this
        · exact this.trans (skip_fwd _ _)
      rw [if_neg hc7]
      by_cases hc8 : ty = tySTRING4
      · rw [if_pos hc8]
        have := bReadU_fwd 4 r
        split <;> rename_i heq <;> rw [heq] at this
        · exact this
        · exact this.trans (skip_fwd _ _)
      rw [if_neg hc8]
      by_cases hc9 : ty = tyMAP
      · rw [if_pos hc9]
        have := readLen_fwd r
        split <;> rename_i heq <;> rw [heq] at this
        · exact this
        · exact this.trans (ihE _ _)
      rw [if_neg hc9]
      by_cases hc10 : ty = tyLIST
      · rw [if_pos hc10]
        have := readLen_fwd r
        split <;> rename_i heq <;> rw [heq] at this
        · exact this
        · exact this.trans (ihE _ _)
      rw [if_neg hc10]
      by_cases hc11 : ty = tySimpleList
      · rw [if_pos hc11]
        have := readHead_fwd r
        split <;> rename_i heq <;> rw [heq] at this
        · split
          · exact this
          · split <;> exact this
        · split
          · exact this
          · rename_i r1 _
            have h2 := readLen_fwd r1
            split <;> rename_i heq2 <;> rw [heq2] at h2
            · exact this.trans h2
            · exact this.trans (h2.trans (skip_fwd _ _))
      rw [if_neg hc11]
      by_cases hc12 : ty = tyStructBegin
      · rw [if_pos hc12]
        exact ihS r
      rw [if_neg hc12]
      by_cases hc13 : ty = tyStructEnd
      · rw [if_pos hc13]
        exact Fwd.refl r
      rw [if_neg hc13]
      by_cases hc14 : ty = tyZeroTag
      · rw [if_pos hc14]
        exact Fwd.refl r
      rw [if_neg hc14]
      · exact Fwd.refl r
    · unfold skipElems
      split
      · exact Fwd.refl r
      · have := readHead_fwd r
        split <;> rename_i heq <;> rw [heq] at this
        · exact this
        · rename_i tyCur _ r1
          exact this.trans ((ihF tyCur r1).trans (ihE _ _))
    · unfold skipToStructEnd
      have := readHead_fwd r
      split <;> rename_i heq <;> rw [heq] at this
      · exact this
      · rename_i ty _ r1
        have h2 := ihF ty r1
        split <;> rename_i heq2 <;> rw [heq2] at h2
        · exact this.trans h2
        · split
          · exact this.trans h2
          · exact this.trans (h2.trans (ihS _))

theorem skipField_fwd (fuel ty : Nat) (r : Reader) : Fwd r (skipField fuel ty r).2 :=
  (skip_family_fwd fuel).1 ty r

/-! ### `SkipToNoCheck` -/

theorem skipToNoCheckF_step (F tag : Nat) (req : Bool) (r r1 r2 : Reader) (tyCur tagCur : Nat)
    (h1 : readHead r = (.ok (tyCur, tagCur), r1)) (hne : tyCur ≠ tyStructEnd) (hlt : tagCur < tag)
    (h2 : skipField r1.fuel tyCur r1 = (.ok (), r2)) :
    skipToNoCheckF (F+1) tag req r = skipToNoCheckF F tag req r2 := by
  have a : ¬ (tyCur = tyStructEnd ∨ tagCur > tag) := by omega
  have b : ¬ tagCur = tag := by omega
  simp only [skipToNoCheckF, h1, if_neg a, if_neg b, h2]

/-- the loop fuel of `SkipToNoCheck` is immaterial once it exceeds the bytes left: every
    iteration consumes at least the head it reads -/
theorem skipToNoCheckF_fuel (tag : Nat) (req : Bool) (F : Nat) :
    ∀ (r : Reader) (F' : Nat), r.remaining < F → r.remaining < F' →
      skipToNoCheckF F tag req r = skipToNoCheckF F' tag req r := by
  induction F with
  | zero => intro r F' h; omega
  | succ F ih =>
    intro r F' hF hF'
    obtain ⟨G, rfl⟩ := exists_succ_of_pos (n := F') (by omega)
    rcases h1 : readHead r with ⟨e | ⟨tyCur, tagCur⟩, r1⟩
    · simp only [skipToNoCheckF, h1]
    · obtain ⟨hd, hp, hs⟩ := readHead_ok h1
      by_cases a : tyCur = tyStructEnd ∨ tagCur > tag
      · simp only [skipToNoCheckF, h1, if_pos a]
      · by_cases b : tagCur = tag
        · simp only [skipToNoCheckF, h1, if_neg a, if_pos b]
        · have hfw := skipField_fwd r1.fuel tyCur r1
          rcases h2 : skipField r1.fuel tyCur r1 with ⟨e | _, r2⟩
          · simp only [skipToNoCheckF, h1, if_neg a, if_neg b, h2]
          · rw [h2] at hfw
            simp only [skipToNoCheckF, h1, if_neg a, if_neg b, h2]
            have hrem : r2.remaining < r.remaining := by
              unfold Reader.remaining
              have := hfw.1; have := hfw.2
              simp only at *
              rw [hfw.1, hd]; omega
            exact ih r2 G (by omega) (by omega)

/-- **`SkipToNoCheck` passes over a well-formed field with a lower tag**, consuming it exactly:
    it behaves as it does on the reader positioned right after the field. -/
theorem skipToNoCheck_passes (f : WFField) (hf : f.wf = true) (tag : Nat) (req : Bool)
    (r : Reader) (t : Bytes) (h : r.rest = render f ++ t) (hlt : f.tag < tag) :
    skipToNoCheck tag req r = skipToNoCheck tag req (r.adv (render f).length) := by
  obtain ⟨h1, hr1⟩ := readHead_render r f hf t h
  have h2 := skipField_exact f hf (r.adv (writeHead f.ty f.tag).length).fuel
    (cost_le_fuel f _ t hr1) _ t hr1
  unfold skipToNoCheck
  rw [Reader.fuel_succ, skipToNoCheckF_step _ tag req r _ _ _ _ h1 (ty_ne_structEnd f) hlt h2]
  simp only [Reader.adv_adv, ← render_length]
  have hpos : 0 < (render f).length := by
    rw [render_length]; have := writeHead_length_pos f.ty f.tag; omega
  apply skipToNoCheckF_fuel
  · simp only [Reader.remaining, Reader.adv_data, Reader.adv_pos]; omega
  · simp only [Reader.remaining, Reader.adv_data, Reader.adv_pos, Reader.fuel]; omega

/-- the same for a sequence of well-formed fields with lower tags -/
theorem skipToNoCheck_passes_list (tag : Nat) (fs : List WFField)
    (hf : ∀ f ∈ fs, f.wf = true ∧ f.tag < tag)
    (req : Bool) (r : Reader) (t : Bytes) (h : r.rest = renderList fs ++ t) :
    skipToNoCheck tag req r = skipToNoCheck tag req (r.adv (renderList fs).length) := by
  induction fs generalizing r with
  | nil => simp [renderList]
  | cons f fs ih =>
    rw [renderList_cons] at h ⊢
    have hf0 := hf f (by simp)
    rw [skipToNoCheck_passes f hf0.1 tag req r (renderList fs ++ t) (by simpa using h) hf0.2]
    have hr := r.rest_adv (render f) (renderList fs ++ t) (by simpa using h)
    rw [ih (fun g hg => hf g (by simp [hg])) _ hr]
    simp

end Skip
end Tars
