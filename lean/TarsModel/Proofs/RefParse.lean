import TarsModel.Proofs.RefSpec

/-!
# Reference decoder, stage 1: the strict TLV parser reads the encoding of a well-typed value back
  as its tree `tlvVar` (fuel ≥ length of the field + 1 suffices)
-/
namespace Tars
open Consts
namespace Ref

theorem intLeaf_be (tag ty w : Nat) (v : Int) (t : Bytes) (hw : 0 < w)
    (hlo : -((2 ^ (8 * w - 1) : Nat) : Int) ≤ v) (hhi : v < ((2 ^ (8 * w - 1) : Nat) : Int)) :
    intLeaf tag ty w (be w (toU (8 * w) v) ++ t) = some (Tlv.mk tag ty v w 0 [] [], t) := by
  unfold intLeaf
  rw [takeN_append' w _ t (be_length _ _)]
  simp only [beNat_be]
  have hlt := toU_lt (8 * w) v
  have hpow : 256 ^ w = 2 ^ (8 * w) := by
    rw [Nat.pow_mul]
  rw [hpow, Nat.mod_eq_of_lt hlt, sext_eq_toS _ _ hlt, toS_toU (8 * w) (by omega) v hlo hhi]

theorem parseField_succ_head (total fuel ty tag : Nat) (p : Bytes) (hty : ty < 16)
    (htag : tag < 256) :
    parseField total (fuel+1) (writeHead ty tag ++ p) =
      (if ty = 0 then intLeaf tag ty 1 p
      else if ty = 1 then intLeaf tag ty 2 p
      else if ty = 2 then intLeaf tag ty 4 p
      else if ty = 3 then intLeaf tag ty 8 p
      else if ty = 4 then fltLeaf tag ty 4 p
      else if ty = 5 then fltLeaf tag ty 8 p
      else if ty = 6 then
        match p with
        | [] => none
        | l :: p1 =>
          match takeN l.val p1 with
          | none => none
          | some (s, q) => some (Tlv.mk tag ty 0 0 0 s [], q)
      else if ty = 7 then
        match takeN 4 p with
        | none => none
        | some (d, p1) =>
          if beNat d > total then none
          else
            match takeN (beNat d) p1 with
            | none => none
            | some (s, q) => some (Tlv.mk tag ty 0 0 0 s [], q)
      else if ty = 8 then
        match lenOf (parseField total fuel p) with
        | none => none
        | some (n, q) =>
          if n > total then none
          else
            match parsePairs total fuel n q with
            | none => none
            | some (kids, q2) => some (Tlv.mk tag ty 0 0 0 [] kids, q2)
      else if ty = 9 then
        match lenOf (parseField total fuel p) with
        | none => none
        | some (n, q) =>
          if n > total then none
          else
            match parseElems total fuel n q with
            | none => none
            | some (kids, q2) => some (Tlv.mk tag ty 0 0 0 [] kids, q2)
      else if ty = 10 then
        match parseMembers total fuel p with
        | none => none
        | some (kids, q) => some (Tlv.mk tag ty 0 0 0 [] kids, q)
      else if ty = 12 then some (Tlv.mk tag ty 0 0 0 [] [], p)
      else if ty = 13 then
        match parseHead p with
        | none => none
        | some (ty2, tag2, q) =>
          if ty2 ≠ 0 ∨ tag2 ≠ 0 then none
          else
            match lenOf (parseField total fuel q) with
            | none => none
            | some (n, q2) =>
              match takeN n q2 with
              | none => none
              | some (s, q3) => some (Tlv.mk tag ty 0 0 0 s [], q3)
      else none) := by
  conv => lhs; unfold parseField
  simp only [parseHead_writeHead ty tag p hty htag]
  rfl

/-- every integer (any declared integer type, bool, enum, length prefix) parses to its leaf -/
theorem parse_specInt (total fuel tag : Nat) (i : Int) (t : Bytes) (htag : tag < 256)
    (hi : -(2:Int)^63 ≤ i ∧ i < (2:Int)^63) :
    parseField total (fuel+1) (specInt i tag ++ t) = some (intTlv tag i, t) := by
  unfold specInt intTlv
  rw [← C02_wire_head, List.append_assoc]
  by_cases h0 : i = 0
  · subst h0
    have hw : Tars.minWidth 0 = 0 := by simp [Tars.minWidth]
    rw [hw, parseField_succ_head _ _ _ _ _ (by decide) htag]
    simp [intTy, be]
  · by_cases h8 : -(2 : Int) ^ 7 ≤ i ∧ i < (2 : Int) ^ 7
    · have hw : Tars.minWidth i = 1 := by unfold Tars.minWidth; rw [if_neg h0, if_pos h8]
      rw [hw, parseField_succ_head _ _ _ _ _ (by decide) htag]
      simp only [intTy, if_true]
      exact intLeaf_be tag 0 1 i t (by decide) (by simp; omega) (by simp; omega)
    · by_cases h16 : -(2 : Int) ^ 15 ≤ i ∧ i < (2 : Int) ^ 15
      · have hw : Tars.minWidth i = 2 := by
          unfold Tars.minWidth; rw [if_neg h0, if_neg h8, if_pos h16]
        rw [hw, parseField_succ_head _ _ _ _ _ (by decide) htag]
        simp +decide only [intTy, if_true, if_false]
        exact intLeaf_be tag 1 2 i t (by decide) (by simp; omega) (by simp; omega)
      · by_cases h32 : -(2 : Int) ^ 31 ≤ i ∧ i < (2 : Int) ^ 31
        · have hw : Tars.minWidth i = 4 := by
            unfold Tars.minWidth; rw [if_neg h0, if_neg h8, if_neg h16, if_pos h32]
          rw [hw, parseField_succ_head _ _ _ _ _ (by decide) htag]
          simp +decide only [intTy, if_true, if_false]
          exact intLeaf_be tag 2 4 i t (by decide) (by simp; omega) (by simp; omega)
        · have hw : Tars.minWidth i = 8 := by
            unfold Tars.minWidth; rw [if_neg h0, if_neg h8, if_neg h16, if_neg h32]
          rw [hw, parseField_succ_head _ _ _ _ _ (by decide) htag]
          simp +decide only [intTy, if_true, if_false]
          exact intLeaf_be tag 3 8 i t (by decide) (by simp; omega) (by simp; omega)

theorem fltLeaf_be (tag ty w bits : Nat) (t : Bytes) (h : bits < 256 ^ w) :
    fltLeaf tag ty w (be w bits ++ t) = some (Tlv.mk tag ty 0 0 bits [] [], t) := by
  unfold fltLeaf
  rw [takeN_append' w _ t (be_length _ _)]
  simp only [beNat_be, Nat.mod_eq_of_lt h]

theorem scalarOK_int_range {ty : Ty} {i : Int} (h : ScalarOK ty (.int i)) :
    -(2:Int)^63 ≤ i ∧ i < (2:Int)^63 := by
  cases ty <;> simp only [ScalarOK] at h <;> omega

/-- scalar members: the parser returns the scalar leaf -/
theorem parse_scalar (total fuel tag : Nat) (ty : Ty) (v : Val) (t : Bytes) (htag : tag < 256)
    (hv : ScalarOK ty v) (htot : (writeScalar ty v tag).length ≤ total) :
    parseField total (fuel+1) (writeScalar ty v tag ++ t) = some (tlvScalar ty v tag, t) := by
  cases v with
  | int i =>
    have hts : tlvScalar ty (.int i) tag = intTlv tag i := by
      cases ty <;> first | rfl | simp [ScalarOK] at hv
    rw [hts, writeScalar_int ty i tag hv]
    exact parse_specInt total fuel tag i t htag (scalarOK_int_range hv)
  | bool b =>
    cases ty <;> simp only [ScalarOK] at hv
    simp only [writeScalar, tlvScalar]
    rw [writeBool_spec]
    exact parse_specInt total fuel tag _ t htag (by cases b <;> simp)
  | f32 bits =>
    cases ty <;> simp only [ScalarOK] at hv
    simp only [writeScalar, tlvScalar, writeFloat32, List.append_assoc]
    rw [parseField_succ_head _ _ _ _ _ (by decide) htag]
    simp +decide only [if_true, if_false]
    exact fltLeaf_be tag 4 4 bits t (by simpa using hv)
  | f64 bits =>
    cases ty <;> simp only [ScalarOK] at hv
    simp only [writeScalar, tlvScalar, writeFloat64, List.append_assoc]
    rw [parseField_succ_head _ _ _ _ _ (by decide) htag]
    simp +decide only [if_true, if_false]
    exact fltLeaf_be tag 5 8 bits t (by simpa using hv)
  | str s =>
    cases ty <;> simp only [ScalarOK] at hv
    simp only [writeScalar, tlvScalar] at htot ⊢
    unfold writeString at htot ⊢
    by_cases hl : s.length > str1Max
    · have hl' : s.length > 255 := hl
      rw [if_pos hl] at htot ⊢
      simp only [List.append_assoc]
      rw [parseField_succ_head _ _ _ _ _ (by decide) htag]
      simp +decide only [if_true, if_false]
      rw [takeN_append' 4 _ _ (be_length _ _)]
      have hmod : s.length % 256 ^ 4 = s.length := Nat.mod_eq_of_lt (by simpa using hv)
      simp only [beNat_be, hmod]
      have hle : ¬ (s.length > total) := by
        simp only [List.length_append] at htot; omega
      simp only [hle, if_false, takeN_append, hl', if_true]
    · have hl' : ¬ s.length > 255 := hl
      rw [if_neg hl] at htot ⊢
      simp only [List.append_assoc, List.cons_append, List.nil_append]
      rw [parseField_succ_head _ _ _ _ _ (by decide) htag]
      simp +decide only [if_true, if_false]
      have hb : (byte s.length).val = s.length := by
        simp only [byte_val]; omega
      simp only [hb, takeN_append, hl', if_false]
  | list _ => cases ty <;> simp [ScalarOK] at hv
  | map _ => cases ty <;> simp [ScalarOK] at hv
  | struct _ => cases ty <;> simp [ScalarOK] at hv

/-- a container length prefix `n < 2^31` -/
theorem lenOf_len (total fuel n : Nat) (t : Bytes) (hn : n < 2^31) :
    lenOf (parseField total (fuel+1) (writeInt32 (wrapS 32 (n : Int)) 0 ++ t)) = some (n, t) := by
  rw [wrapS32_len n hn, C02_wire_int32 (n : Int) 0 (by omega)]
  rw [parse_specInt total fuel 0 n t (by decide) (by omega)]
  have hty : intTy (Tars.minWidth (n : Int)) = 12 ∨ intTy (Tars.minWidth (n : Int)) ≤ 2 := by
    unfold Tars.minWidth
    by_cases h0 : (n : Int) = 0
    · left; simp [h0, intTy]
    · right
      rw [if_neg h0]
      by_cases h8 : -(2 : Int) ^ 7 ≤ (n : Int) ∧ (n : Int) < (2 : Int) ^ 7
      · rw [if_pos h8]; simp [intTy]
      · rw [if_neg h8]
        by_cases h16 : -(2 : Int) ^ 15 ≤ (n : Int) ∧ (n : Int) < (2 : Int) ^ 15
        · rw [if_pos h16]; simp [intTy]
        · rw [if_neg h16]
          have h32 : -(2 : Int) ^ 31 ≤ (n : Int) ∧ (n : Int) < (2 : Int) ^ 31 := by omega
          rw [if_pos h32]; simp [intTy]
  have c2 : ¬ ((n : Int) < 0) := by omega
  rcases hty with h | h <;> simp [lenOf, intTlv, Tlv.tag, Tlv.ty, Tlv.ival, h, c2]

end Ref
end Tars
