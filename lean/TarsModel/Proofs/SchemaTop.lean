import TarsModel.Proofs.SchemaFuel
import TarsModel.Proofs.SchemaRT4

/-!
# Round trip at the API level: `WriteTo`/`ReadFrom` and `WriteBlock`/`ReadBlock`
-/
namespace Tars
open Consts

theorem WT_struct_inv {env : Env} {S : String} {v : Val} (h : WT env (.struct S) v) :
    ∃ fs vs, env.find S = some fs ∧ v = .struct vs ∧ WTm env fs vs := by
  cases v <;> simp only [WT, ScalarOK] at h
  rename_i vs
  cases hfs : env.find S with
  | none => simp [hfs] at h
  | some fs => exact ⟨fs, vs, rfl, rfl, by simpa [hfs] using h⟩

theorem decFuel_pos (env : Env) (r : Reader) : 1 ≤ decFuel env r := by
  unfold decFuel
  have : 1 * 1 ≤ (env.width + 3) * (r.data.size + 2) := Nat.mul_le_mul (by omega) (by omega)
  omega

theorem structTy_ok {env : Env} {rk : String → Nat} (hE : EnvWF env rk) {S : String}
    {fs : List Field} (hfs : env.find S = some fs) : TyOK env rk (env.length + 1) (.struct S) := by
  simp only [TyOK]
  exact ⟨⟨fs, hfs⟩, by have := (hE S fs hfs).1; omega⟩

/-- the Go zero value of a struct is an admissible target -/
theorem freshStruct_targetOK {env : Env} {rk : String → Nat} (hE : EnvWF env rk) {S : String}
    {fs : List Field} (hfs : env.find S = some fs) : TargetOK env S (freshStruct env S) :=
  zeroOf_ready hE (.struct S) (structTy_ok hE hfs)

/-- `ReadFrom` after `WriteTo` into ANY admissible target, with an abstract fuel bound -/
theorem decMembers_target_rt (env : Env) (rk : String → Nat) (hE : EnvWF env rk) (S : String)
    (fs : List Field) (vs os : List Val) (fuel : Nat) (r : Reader) (t : Bytes)
    (hfs : env.find S = some fs) (hwt : WTm env fs vs) (hos : ReadyMembers env fs os)
    (ht : Terminated t) (hfuel : needElems vs ≤ fuel) (h : r.rest = encMembers env fs vs ++ t) :
    decMembers env fuel fs (resetDefault env fuel fs os) r
      = (.ok (normMembers env fs vs), r.adv (encMembers env fs vs).length) := by
  obtain ⟨hrk, hasc, hfok⟩ := hE S fs hfs
  obtain ⟨f, rfl⟩ : ∃ f, fuel = f + 1 := ⟨fuel - 1, by have := needElems_pos vs; omega⟩
  have htys : ∀ g ∈ fs, TyOK env rk (env.length + 1) g.ty :=
    fun g hg => TyOK.mono (by omega) (hfok g hg).2.1
  exact decMembers_rt env rk (rk S) hrk vs (fun v _ => rt_all env rk hE v) fs (f+1) _ r t hfok hasc
    hwt (resetDefault_oldOK hE f fs os htys hos) ht hfuel h

/-- `ReadFrom` after `WriteTo` into a fresh target, with an abstract fuel bound -/
theorem decMembers_fresh_rt (env : Env) (rk : String → Nat) (hE : EnvWF env rk) (S : String)
    (fs : List Field) (vs : List Val) (fuel : Nat) (r : Reader) (t : Bytes)
    (hfs : env.find S = some fs) (hwt : WTm env fs vs) (ht : Terminated t)
    (hfuel : needElems vs ≤ fuel) (h : r.rest = encMembers env fs vs ++ t) :
    ∃ os, freshStruct env S = .struct os ∧
      decMembers env fuel fs (resetDefault env fuel fs os) r
        = (.ok (normMembers env fs vs), r.adv (encMembers env fs vs).length) := by
  obtain ⟨os, hos, hrm⟩ := ready_struct hfs (freshStruct_targetOK hE hfs)
  exact ⟨os, hos, decMembers_target_rt env rk hE S fs vs os fuel r t hfs hwt hrm ht hfuel h⟩

/-- `ReadFrom` after `WriteTo` into any admissible (possibly reused, stale) target -/
theorem decStruct_rt_target (env : Env) (rk : String → Nat) (S : String) (v old : Val) (r : Reader)
    (t : Bytes) (hW : WellTyped env rk S v) (ho : TargetOK env S old) (ht : Terminated t)
    (h : r.rest = encStruct env S v ++ t) :
    decStruct env S old r = (.ok (norm env S v), r.adv (encStruct env S v).length) := by
  obtain ⟨hE, hwt⟩ := hW
  obtain ⟨fs, vs, hfs, rfl, hwm⟩ := WT_struct_inv hwt
  simp only [encStruct, hfs] at h ⊢
  have hfuel := needElems_le_decFuel env S fs vs r t hfs hwm h
  obtain ⟨os, rfl, hrm⟩ := ready_struct hfs ho
  have hdec := decMembers_target_rt env rk hE S fs vs os (decFuel env r) r t hfs hwm hrm ht hfuel h
  unfold decStruct
  simp only [hfs, hdec, norm, normVar]

theorem decStruct_rt (env : Env) (rk : String → Nat) (S : String) (v : Val) (r : Reader) (t : Bytes)
    (hW : WellTyped env rk S v) (ht : Terminated t) (h : r.rest = encStruct env S v ++ t) :
    decStruct env S (freshStruct env S) r
      = (.ok (norm env S v), r.adv (encStruct env S v).length) := by
  obtain ⟨fs, _, hfs, _, _⟩ := WT_struct_inv hW.2
  exact decStruct_rt_target env rk S v _ r t hW (freshStruct_targetOK hW.1 hfs) ht h

/-- `ReadBlock` after `WriteBlock`, any tag, required or optional, any admissible previous target,
    arbitrary following bytes -/
theorem block_rt_target (env : Env) (rk : String → Nat) (S : String) (v old : Val) (tag : Nat)
    (req : Bool) (r : Reader) (t : Bytes) (hW : WellTyped env rk S v) (ho : TargetOK env S old)
    (htag : tag < 256) (h : r.rest = encVar env tag req (.struct S) none v ++ t) :
    decVar env (decFuel env r) tag req (.struct S) old r
      = (.ok (norm env S v), r.adv (encVar env tag req (.struct S) none v).length) := by
  obtain ⟨hE, hwt⟩ := hW
  obtain ⟨fs, vs, hfs, rfl, hwm⟩ := WT_struct_inv hwt
  have hb := (fuelOK_all env (.struct vs) tag req (.struct S) none hwt).2
  have hne : 0 < (encVar env tag req (.struct S) none (.struct vs)).length := by
    rw [encVar]; simp only [hfs]
    have := writeHead_length_pos tyStructBegin tag
    simp only [List.length_append]; omega
  have hsz : (encVar env tag req (.struct S) none (.struct vs)).length ≤ r.data.size := by
    have := congrArg List.length h
    simp [Reader.rest] at this
    omega
  have hfuel : needVar (.struct vs) ≤ decFuel env r := by
    have h1 := hb hne
    have h2 : (env.width + 3) * (encVar env tag req (.struct S) none (.struct vs)).length
        ≤ (env.width + 3) * r.data.size := Nat.mul_le_mul_left _ hsz
    unfold decFuel
    rw [Nat.mul_add]
    omega
  have := decVar_struct_rt env rk hE vs (fun v _ => rt_all env rk hE v) S (decFuel env r) tag req
    old r t htag hwt ho hfuel h
  rw [this]
  simp only [norm, normVar]

/-- `ReadBlock` after `WriteBlock` into a fresh target -/
theorem block_rt (env : Env) (rk : String → Nat) (S : String) (v : Val) (tag : Nat) (req : Bool)
    (r : Reader) (t : Bytes) (hW : WellTyped env rk S v) (htag : tag < 256)
    (h : r.rest = encVar env tag req (.struct S) none v ++ t) :
    decVar env (decFuel env r) tag req (.struct S) (freshStruct env S) r
      = (.ok (norm env S v), r.adv (encVar env tag req (.struct S) none v).length) := by
  obtain ⟨fs, _, hfs, _, _⟩ := WT_struct_inv hW.2
  exact block_rt_target env rk S v _ tag req r t hW (freshStruct_targetOK hW.1 hfs) htag h

end Tars
