/-
  C17 helper definitions and lemmas: the recursive meaning `semItems` of a grammar document as
  operations on an `elem`, and the proof that the stack machine of `InitFromBytes` on `tokens d`
  computes it.
-/
import TarsModel.Proofs.ConfLine

namespace Tars.Conf
open Tars

/-- what one line of the grammar does to the current node -/
def semLine (cur : Elem) (l : Line) : Elem :=
  match l.listed, l.entry with
  | some ln, some (k, v) => (cur.addLine ln).addChild k (newLeaf k v)
  | _, _ => cur

mutual
/-- what an item does to the current node: a text applies its lines; a domain applies its body to
    the existing child of that name (or a fresh node) and stores the result under the name -/
def semItem : Item → Elem → Elem
  | .text t, cur => t.lines.foldl semLine cur
  | .dom n body, cur =>
    cur.addChild n (semItems body (match cur.findChild n with | some c => c | none => newElem .node n))
def semItems : List Item → Elem → Elem
  | [], cur => cur
  | i :: is, cur => semItems is (semItem i cur)
end

/-! ## lines of the grammar -/

theorem Line.wf_text_clean (l : Line) (h : l.wf = true) : nlCh ∉ l.text ∧ crCh ∉ l.text := by
  have hnlb : inSet blankSet nlCh = false := by decide
  have hcrb : inSet blankSet crCh = false := by decide
  cases l with
  | kv pre key mid val post =>
    simp only [Line.wf, Bool.and_eq_true] at h
    obtain ⟨⟨⟨⟨⟨⟨⟨⟨⟨hpre, hmid⟩, hpost⟩, _⟩, _⟩, hknl⟩, hkcr⟩, _⟩, _⟩, hval⟩ := h
    have hknl : nlCh ∉ key := by simpa using hknl
    have hkcr : crCh ∉ key := by simpa using hkcr
    have e1 : eqCh ≠ nlCh := by decide
    have e2 : eqCh ≠ crCh := by decide
    cases val with
    | none =>
      simp only [Line.text, List.mem_append, not_or, List.not_mem_nil, not_false_eq_true, and_true]
      exact ⟨⟨⟨⟨isWs_no _ hpre _ hnlb, hknl⟩, isWs_no _ hmid _ hnlb⟩, isWs_no _ hpost _ hnlb⟩,
        ⟨⟨isWs_no _ hpre _ hcrb, hkcr⟩, isWs_no _ hmid _ hcrb⟩, isWs_no _ hpost _ hcrb⟩
    | some wv =>
      obtain ⟨w, v⟩ := wv
      simp only [Bool.and_eq_true] at hval
      obtain ⟨⟨⟨hw, hvnl⟩, hvcr⟩, _⟩ := hval
      have hvnl : nlCh ∉ v := by simpa using hvnl
      have hvcr : crCh ∉ v := by simpa using hvcr
      simp only [Line.text, List.mem_append, List.mem_cons, not_or]
      exact ⟨⟨⟨⟨⟨isWs_no _ hpre _ hnlb, hknl⟩, isWs_no _ hmid _ hnlb⟩, fun e => e1 e.symm, isWs_no _ hw _ hnlb, hvnl⟩, isWs_no _ hpost _ hnlb⟩,
        ⟨⟨⟨isWs_no _ hpre _ hcrb, hkcr⟩, isWs_no _ hmid _ hcrb⟩, fun e => e2 e.symm, isWs_no _ hw _ hcrb, hvcr⟩, isWs_no _ hpost _ hcrb⟩
  | comment pre t =>
    simp only [Line.wf, Bool.and_eq_true] at h
    obtain ⟨⟨hpre, hnl⟩, hcr⟩ := h
    have hnl : nlCh ∉ t := by simpa using hnl
    have hcr : crCh ∉ t := by simpa using hcr
    have e1 : hashCh ≠ nlCh := by decide
    have e2 : hashCh ≠ crCh := by decide
    simp only [Line.text, List.mem_append, List.mem_cons, not_or]
    exact ⟨⟨isWs_no _ hpre _ hnlb, fun e => e1 e.symm, hnl⟩, isWs_no _ hpre _ hcrb, fun e => e2 e.symm, hcr⟩
  | blank ws =>
    simp only [Line.wf] at h
    exact ⟨isWs_no _ h _ hnlb, isWs_no _ h _ hcrb⟩

/-- on every line of the grammar the code's line handling does what the grammar says -/
theorem procLine_wf (l : Line) (cur : Elem) (h : l.wf = true) : procLine l.text cur = semLine cur l := by
  cases l with
  | kv pre key mid val post =>
    simp only [Line.wf, Bool.and_eq_true] at h
    obtain ⟨⟨⟨⟨⟨⟨⟨⟨⟨hpre, hmid⟩, hpost⟩, hkne⟩, hkeq⟩, _⟩, _⟩, hke⟩, hkh⟩, hval⟩ := h
    have hkne : key ≠ [] := by intro e; subst e; simp at hkne
    have hkeq : eqCh ∉ key := by simpa using hkeq
    have hkh : key.head? ≠ some hashCh := by
      cases key with
      | nil => simp
      | cons c t => simp at hkh; simpa using hkh
    cases val with
    | none =>
      have := procLine_kv_noval pre key mid post cur hpre hmid hpost hkne hkeq hke hkh
      simpa [Line.text, semLine, Line.listed, Line.entry] using this
    | some wv =>
      obtain ⟨w, v⟩ := wv
      simp only [Bool.and_eq_true] at hval
      obtain ⟨⟨⟨hw, _⟩, _⟩, hve⟩ := hval
      have := procLine_kv_val pre key mid w v post cur hpre hmid hw hpost hkne hkeq hke hkh hve
      simpa [Line.text, semLine, Line.listed, Line.entry] using this
  | comment pre t =>
    simp only [Line.wf, Bool.and_eq_true] at h
    simpa [Line.text, semLine, Line.listed] using procLine_comment pre t cur (isWs_allIn _ h.1.1)
  | blank ws =>
    simp only [Line.wf] at h
    simpa [Line.text, semLine, Line.listed] using procLine_blank ws cur (isWs_allIn _ h)

theorem foldl_procLine_wf (ls : List Line) (cur : Elem) (h : ∀ l ∈ ls, l.wf = true) :
    (ls.map Line.text).foldl (fun c t => procLine t c) cur = ls.foldl semLine cur := by
  induction ls generalizing cur with
  | nil => rfl
  | cons l ls ih =>
    simp only [List.map_cons, List.foldl_cons]
    rw [procLine_wf l cur (h l (by simp)), ih _ (fun x hx => h x (by simp [hx]))]

end Tars.Conf

namespace Tars.Conf
open Tars

/-! ## the invariant "a child is stored under its own name", everywhere in the tree -/

mutual
def Elem.ok : Elem → Bool
  | .mk _ _ _ cs _ => okL cs
def okL : List (Txt × Elem) → Bool
  | [] => true
  | (k, e) :: r => (e.name == k) && e.ok && okL r
end

theorem Elem.ok_eq (e : Elem) : e.ok = okL e.children := by
  cases e; simp [Elem.ok, Elem.children]

theorem okL_find (cs : List (Txt × Elem)) (n : Txt) (e : Elem) (h : okL cs = true)
    (hf : assocFind cs n = some e) : e.name = n ∧ e.ok = true := by
  induction cs with
  | nil => simp [assocFind] at hf
  | cons x cs ih =>
    obtain ⟨k, y⟩ := x
    simp only [okL, Bool.and_eq_true, beq_iff_eq] at h
    by_cases hk : k = n
    · simp [assocFind, hk] at hf
      subst hf; subst hk; exact ⟨h.1.1, h.1.2⟩
    · simp [assocFind, hk] at hf
      exact ih h.2 hf

theorem okL_set (cs : List (Txt × Elem)) (n : Txt) (e : Elem) (h : okL cs = true)
    (hn : e.name = n) (he : e.ok = true) : okL (assocSet cs n e) = true := by
  induction cs with
  | nil => simp [assocSet, okL, hn, he]
  | cons x cs ih =>
    obtain ⟨k, y⟩ := x
    simp only [okL, Bool.and_eq_true, beq_iff_eq] at h
    by_cases hk : k = n
    · simp [assocSet, hk, okL, hn, he, h.2]
    · simp [assocSet, hk, okL, h.1.1, h.1.2, ih h.2]

theorem ok_newElem (k : Kind) (n : Txt) : (newElem k n).ok = true := rfl
theorem ok_newLeaf (k v : Txt) : (newLeaf k v).ok = true := rfl
theorem name_newLeaf (k v : Txt) : (newLeaf k v).name = k := rfl

theorem ok_addLine (e : Elem) (l : Txt) : (e.addLine l).ok = e.ok := by cases e; rfl
theorem name_addLine (e : Elem) (l : Txt) : (e.addLine l).name = e.name := by cases e; rfl
theorem kind_addLine (e : Elem) (l : Txt) : (e.addLine l).kind = e.kind := by cases e; rfl
theorem children_addLine (e : Elem) (l : Txt) : (e.addLine l).children = e.children := by cases e; rfl
theorem line_addLine (e : Elem) (l : Txt) : (e.addLine l).line = e.line ++ [l] := by cases e; rfl
theorem name_addChild (e : Elem) (n : Txt) (c : Elem) : (e.addChild n c).name = e.name := by cases e; rfl
theorem kind_addChild (e : Elem) (n : Txt) (c : Elem) : (e.addChild n c).kind = e.kind := by cases e; rfl
theorem line_addChild (e : Elem) (n : Txt) (c : Elem) : (e.addChild n c).line = e.line := by cases e; rfl
theorem children_addChild (e : Elem) (n : Txt) (c : Elem) :
    (e.addChild n c).children = assocSet e.children n c := by cases e; rfl
theorem addChild_addChild (e : Elem) (n : Txt) (c c' : Elem) :
    (e.addChild n c).addChild n c' = e.addChild n c' := by
  cases e; simp [Elem.addChild, assocSet_set]

theorem ok_addChild (e : Elem) (n : Txt) (c : Elem) (h : e.ok = true) (hn : c.name = n) (hc : c.ok = true) :
    (e.addChild n c).ok = true := by
  rw [Elem.ok_eq, children_addChild]; rw [Elem.ok_eq] at h; exact okL_set _ _ _ h hn hc

theorem ok_findChild (e : Elem) (n : Txt) (c : Elem) (h : e.ok = true) (hf : e.findChild n = some c) :
    c.name = n ∧ c.ok = true := by
  rw [Elem.ok_eq] at h; exact okL_find _ _ _ h hf

theorem findChild_addChild_same (e : Elem) (n : Txt) (c : Elem) : (e.addChild n c).findChild n = some c := by
  unfold Elem.findChild; rw [children_addChild]; exact assocFind_set_same _ _ _

theorem findChild_addChild_other (e : Elem) (n n' : Txt) (c : Elem) (h : n ≠ n') :
    (e.addChild n c).findChild n' = e.findChild n' := by
  unfold Elem.findChild; rw [children_addChild]; exact assocFind_set_other _ _ _ _ h

theorem findChild_addLine (e : Elem) (l n : Txt) : (e.addLine l).findChild n = e.findChild n := by
  unfold Elem.findChild; rw [children_addLine]

/-! ## `semLine`, `semItems` preserve name, kind and the invariant -/

theorem semLine_name (cur : Elem) (l : Line) : (semLine cur l).name = cur.name := by
  unfold semLine; split <;> simp [name_addChild, name_addLine]
theorem semLine_kind (cur : Elem) (l : Line) : (semLine cur l).kind = cur.kind := by
  unfold semLine; split <;> simp [kind_addChild, kind_addLine]
theorem semLine_ok (cur : Elem) (l : Line) (h : cur.ok = true) : (semLine cur l).ok = true := by
  unfold semLine; split
  · exact ok_addChild _ _ _ (by rw [ok_addLine]; exact h) (name_newLeaf _ _) (ok_newLeaf _ _)
  · exact h

theorem foldl_semLine_name (ls : List Line) (cur : Elem) : (ls.foldl semLine cur).name = cur.name := by
  induction ls generalizing cur with
  | nil => rfl
  | cons l ls ih => simp [List.foldl_cons, ih, semLine_name]
theorem foldl_semLine_kind (ls : List Line) (cur : Elem) : (ls.foldl semLine cur).kind = cur.kind := by
  induction ls generalizing cur with
  | nil => rfl
  | cons l ls ih => simp [List.foldl_cons, ih, semLine_kind]
theorem foldl_semLine_ok (ls : List Line) (cur : Elem) (h : cur.ok = true) : (ls.foldl semLine cur).ok = true := by
  induction ls generalizing cur with
  | nil => exact h
  | cons l ls ih => simp only [List.foldl_cons]; exact ih _ (semLine_ok _ _ h)

mutual
theorem semItem_name : ∀ (i : Item) (cur : Elem), (semItem i cur).name = cur.name
  | .text t, cur => by simp [semItem, foldl_semLine_name]
  | .dom n body, cur => by simp [semItem, name_addChild]
theorem semItems_name : ∀ (is : List Item) (cur : Elem), (semItems is cur).name = cur.name
  | [], cur => by simp [semItems]
  | i :: is, cur => by rw [semItems, semItems_name is, semItem_name i]
end

mutual
theorem semItem_kind : ∀ (i : Item) (cur : Elem), (semItem i cur).kind = cur.kind
  | .text t, cur => by simp [semItem, foldl_semLine_kind]
  | .dom n body, cur => by simp [semItem, kind_addChild]
theorem semItems_kind : ∀ (is : List Item) (cur : Elem), (semItems is cur).kind = cur.kind
  | [], cur => by simp [semItems]
  | i :: is, cur => by rw [semItems, semItems_kind is, semItem_kind i]
end

/-- the node a `dom n` item continues: the existing child, or a fresh node -/
def baseOf (cur : Elem) (n : Txt) : Elem :=
  match cur.findChild n with | some c => c | none => newElem .node n

theorem semItem_dom (n : Txt) (body : List Item) (cur : Elem) :
    semItem (.dom n body) cur = cur.addChild n (semItems body (baseOf cur n)) := by
  simp [semItem, baseOf]

theorem baseOf_ok (cur : Elem) (n : Txt) (h : cur.ok = true) : (baseOf cur n).name = n ∧ (baseOf cur n).ok = true := by
  unfold baseOf
  cases hf : cur.findChild n with
  | none => exact ⟨rfl, rfl⟩
  | some c => exact ok_findChild cur n c h hf

mutual
theorem semItem_ok : ∀ (i : Item) (cur : Elem), cur.ok = true → (semItem i cur).ok = true
  | .text t, cur, h => by simpa [semItem] using foldl_semLine_ok t.lines cur h
  | .dom n body, cur, h => by
    rw [semItem_dom]
    have hb := baseOf_ok cur n h
    exact ok_addChild _ _ _ h (by rw [semItems_name]; exact hb.1) (semItems_ok body _ hb.2)
theorem semItems_ok : ∀ (is : List Item) (cur : Elem), cur.ok = true → (semItems is cur).ok = true
  | [], cur, h => by simpa [semItems] using h
  | i :: is, cur, h => by rw [semItems]; exact semItems_ok is _ (semItem_ok i cur h)
end

end Tars.Conf
