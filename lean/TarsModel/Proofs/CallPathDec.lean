import TarsModel.Model.CallPath
import TarsModel.Proofs.CallPathRender

/-!
# Argument and response buffers of an interface function: encode / decode round trips

* `decMembers_req_rt` — a sequence of required members without defaults (what the generator builds
  for parameters and return values) reads back what was written, whatever follows;
* `decIns_rt` — the dispatcher's reads of the in parameters from a buffer that holds ALL parameters
  (the proxy also writes the out parameters): the out parameters in between are passed over;
* `needElems_le_argFuel` — the fuel `argFuel` suffices.
-/
namespace Tars.CallPath
open Tars Consts

/-- what the generator's dummy members look like, and that their type is of the supported language -/
def ArgFieldOK (env : Env) (rk : String → Nat) (f : Field) : Prop :=
  f.tag < 256 ∧ f.req = true ∧ f.dflt = none ∧ TyOK env rk (env.length + 1) f.ty

/-- what the target of a required member may hold when it is read: what `var` / `ResetDefault`
    leave (`OldOK`), or any Go value of the member's type (a reused variable) -/
def ArgOld (env : Env) (f : Field) (o : Val) : Prop := OldOK env f.ty f.dflt o ∨ WT env f.ty o

def ArgOlds (env : Env) : List Field → List Val → Prop
  | [], [] => True
  | f :: fs, o :: os => ArgOld env f o ∧ ArgOlds env fs os
  | _, _ => False

theorem argOlds_append (env : Env) : ∀ (fs1 fs2 : List Field) (o1 o2 : List Val),
    ArgOlds env fs1 o1 → ArgOlds env fs2 o2 → ArgOlds env (fs1 ++ fs2) (o1 ++ o2)
  | [], _, [], _, _, h2 => by simpa using h2
  | [], _, _ :: _, _, h1, _ => by simp [ArgOlds] at h1
  | _ :: _, _, [], _, h1, _ => by simp [ArgOlds] at h1
  | f :: fs1, fs2, o :: o1, o2, h1, h2 => by
    simp only [ArgOlds, List.cons_append] at h1 ⊢
    exact ⟨h1.1, argOlds_append env fs1 fs2 o1 o2 h1.2 h2⟩

theorem argOlds_of_WTm (env : Env) : ∀ (fs : List Field) (os : List Val), WTm env fs os →
    ArgOlds env fs os
  | [], [], _ => trivial
  | [], _ :: _, h => by simp [WTm] at h
  | _ :: _, [], h => by simp [WTm] at h
  | f :: fs, o :: os, h => by
    simp only [WTm] at h
    exact ⟨.inr h.1, argOlds_of_WTm env fs os h.2⟩

theorem argOlds_of_oldOKs (env : Env) : ∀ (fs : List Field) (os : List Val), OldOKs env fs os →
    ArgOlds env fs os
  | [], [], _ => trivial
  | [], _ :: _, h => by simp [OldOKs] at h
  | _ :: _, [], h => by simp [OldOKs] at h
  | f :: fs, o :: os, h => by
    simp only [OldOKs] at h
    exact ⟨.inl h.1, argOlds_of_oldOKs env fs os h.2⟩

theorem decMembers_req_rt (env : Env) (rk : String → Nat) (hE : EnvWF env rk) :
    ∀ (vs : List Val) (fs : List Field) (fuel : Nat) (olds : List Val) (r : Reader) (t : Bytes),
      (∀ f ∈ fs, ArgFieldOK env rk f) → WTm env fs vs → ArgOlds env fs olds →
      needElems vs ≤ fuel → r.rest = encMembers env fs vs ++ t →
      decMembers env fuel fs olds r
        = (.ok (normMembers env fs vs), r.adv (encMembers env fs vs).length)
  | [], fs, fuel, olds, r, t, _, hwt, _, hf, _ => by
    obtain ⟨f, rfl⟩ : ∃ f, fuel = f + 1 := ⟨fuel - 1, by simp [needElems] at hf; omega⟩
    cases fs with
    | nil => simp [decMembers_nil, normMembers, encMembers]
    | cons g gs => simp [WTm] at hwt
  | v :: vs, fs, fuel, olds, r, t, hfs, hwt, hold, hf, h => by
    simp only [needElems] at hf
    obtain ⟨f, rfl⟩ : ∃ f, fuel = f + 1 := ⟨fuel - 1, by omega⟩
    cases fs with
    | nil => simp [WTm] at hwt
    | cons g gs =>
      cases olds with
      | nil => simp [ArgOlds] at hold
      | cons o os =>
        simp only [WTm] at hwt
        simp only [ArgOlds] at hold
        simp only [encMembers, List.append_assoc] at h
        obtain ⟨hg1, hg2, hg3, hg4⟩ := hfs g (by simp)
        rw [decMembers_cons]
        have hv : decVar env f g.tag g.req g.ty o r
            = (.ok (normVar env g.req g.ty g.dflt v), r.adv (encVar env g.tag g.req g.ty g.dflt v).length) := by
          rcases hold.1 with ho | ho
          · exact rt_all env rk hE v f g.tag g.req g.ty g.dflt o r (encMembers env gs vs ++ t)
              hg1 hg4 (by rw [hg3]; trivial) hwt.1 ho (fun hq => by rw [hg2] at hq; cases hq)
              (by omega) h
          · rw [hg2] at h ⊢
            exact rt_req_wt env rk hE v f g.tag g.ty g.dflt o r (encMembers env gs vs ++ t)
              hg1 hg4 (by rw [hg3]; trivial) hwt.1 ho (by omega) h
        rw [hv]
        simp only
        have hr := r.rest_adv _ _ h
        have := decMembers_req_rt env rk hE vs gs f os _ t
          (fun f' hf' => hfs f' (by simp [hf'])) hwt.2 hold.2 (by omega) hr
        rw [this]
        simp [normMembers, encMembers, Reader.adv_adv]

/-! ## the pseudo-schemas -/

theorem reqFieldsFrom_ok (env : Env) (rk : String → Nat) : ∀ (ps : List Param) (k : Nat),
    k + ps.length + cpArgTagOffset ≤ 256 → (∀ p ∈ ps, TyOK env rk (env.length + 1) p.ty) →
    ∀ f ∈ reqFieldsFrom k ps, ArgFieldOK env rk f
  | [], _, _, _, f, hf => by simp [reqFieldsFrom] at hf
  | p :: ps, k, hk, hty, f, hf => by
    simp only [reqFieldsFrom, List.mem_cons] at hf
    rcases hf with rfl | hf
    · refine ⟨?_, rfl, rfl, hty p (by simp)⟩
      simp only [argField, argTag, List.length_cons] at hk ⊢; omega
    · exact reqFieldsFrom_ok env rk ps (k+1) (by simp only [List.length_cons] at hk; omega)
        (fun q hq => hty q (by simp [hq])) f hf

theorem inFieldsFrom_ok (env : Env) (rk : String → Nat) : ∀ (ps : List Param) (k : Nat),
    k + ps.length + cpArgTagOffset ≤ 256 → (∀ p ∈ ps, TyOK env rk (env.length + 1) p.ty) →
    ∀ f ∈ inFieldsFrom k ps, ArgFieldOK env rk f ∧ argTag k ≤ f.tag
  | [], _, _, _, f, hf => by simp [inFieldsFrom] at hf
  | p :: ps, k, hk, hty, f, hf => by
    have ih := inFieldsFrom_ok env rk ps (k+1) (by simp only [List.length_cons] at hk; omega)
      (fun q hq => hty q (by simp [hq]))
    simp only [inFieldsFrom] at hf
    split at hf
    · obtain ⟨h1, h2⟩ := ih f hf
      exact ⟨h1, by simp only [argTag] at h2 ⊢; omega⟩
    · simp only [List.mem_cons] at hf
      rcases hf with rfl | hf
      · refine ⟨⟨?_, rfl, rfl, hty p (by simp)⟩, Nat.le_refl _⟩
        simp only [argField, argTag, List.length_cons] at hk ⊢; omega
      · obtain ⟨h1, h2⟩ := ih f hf
        exact ⟨h1, by simp only [argTag] at h2 ⊢; omega⟩

theorem outFieldsFrom_ok (env : Env) (rk : String → Nat) : ∀ (ps : List Param) (k : Nat),
    k + ps.length + cpArgTagOffset ≤ 256 → (∀ p ∈ ps, TyOK env rk (env.length + 1) p.ty) →
    ∀ f ∈ outFieldsFrom k ps, ArgFieldOK env rk f
  | [], _, _, _, f, hf => by simp [outFieldsFrom] at hf
  | p :: ps, k, hk, hty, f, hf => by
    have ih := outFieldsFrom_ok env rk ps (k+1) (by simp only [List.length_cons] at hk; omega)
      (fun q hq => hty q (by simp [hq]))
    simp only [outFieldsFrom] at hf
    split at hf
    · simp only [List.mem_cons] at hf
      rcases hf with rfl | hf
      · refine ⟨?_, rfl, rfl, hty p (by simp)⟩
        simp only [argField, argTag, List.length_cons] at hk ⊢; omega
      · exact ih f hf
    · exact ih f hf

/-- the values of all parameters, typed positionally, split into the in and the out values -/
theorem WTm_in_out (env : Env) : ∀ (ps : List Param) (k : Nat) (args : List Val),
    WTm env (reqFieldsFrom k ps) args →
    WTm env (inFieldsFrom k ps) (inVals ps args) ∧ WTm env (outFieldsFrom k ps) (outVals ps args)
  | [], _, args, h => by
    cases args with
    | nil => simp [inFieldsFrom, outFieldsFrom, inVals, outVals, WTm]
    | cons a as => simp [reqFieldsFrom, WTm] at h
  | p :: ps, k, args, h => by
    cases args with
    | nil => simp [reqFieldsFrom, WTm] at h
    | cons a as =>
      simp only [reqFieldsFrom, WTm] at h
      obtain ⟨h1, h2⟩ := WTm_in_out env ps (k+1) as h.2
      simp only [inFieldsFrom, outFieldsFrom, inVals, outVals]
      cases p.isOut <;> simp [WTm, h1, h2] <;> exact h.1

/-! ## the dispatcher's reads -/

theorem needElems_tail (v : Val) (vs : List Val) : needElems vs ≤ needElems (v :: vs) := by
  simp only [needElems]; omega

/-- the member sequence depends on the reader only through the first member's read -/
theorem decMembers_head_congr (env : Env) (f : Nat) (g : Field) (gs : List Field) (o : Val)
    (os : List Val) (r r' : Reader)
    (hres : Evolve.ResEq (decVar env f g.tag g.req g.ty o r) (decVar env f g.tag g.req g.ty o r')) :
    (decMembers env (f+1) (g :: gs) (o :: os) r).1 = (decMembers env (f+1) (g :: gs) (o :: os) r').1 := by
  rw [decMembers_cons, decMembers_cons]
  obtain ⟨h1, h2⟩ := hres
  rcases hA : decVar env f g.tag g.req g.ty o r with ⟨a, ra⟩
  rcases hB : decVar env f g.tag g.req g.ty o r' with ⟨b, rb⟩
  rw [hA, hB] at h1 h2
  simp only at h1 h2
  subst h1
  cases a with
  | error e => rfl
  | ok v =>
    have := h2 v rfl
    subst this
    rfl

/-- **what the dispatcher reads.**  From a buffer holding every parameter (tag `k+1`, as the proxy
    writes them), reading only the in parameters — each at its tag, into a zero-valued variable —
    yields exactly (the normal forms of) the in values: the out parameters in between are skipped. -/
theorem decIns_rt (env : Env) (rk : String → Nat) (hE : EnvWF env rk) :
    ∀ (ps : List Param) (k : Nat) (args : List Val) (fuel : Nat) (r : Reader) (t : Bytes),
      k + ps.length + cpArgTagOffset ≤ 256 → (∀ p ∈ ps, TyOK env rk (env.length + 1) p.ty) →
      WTm env (reqFieldsFrom k ps) args → mapsSmallL (outVals ps args) = true →
      needElems args ≤ fuel → r.rest = encMembers env (reqFieldsFrom k ps) args ++ t →
      (decMembers env fuel (inFieldsFrom k ps) ((inFieldsFrom k ps).map fun fl => zeroOf env fl.ty) r).1
        = .ok (normMembers env (inFieldsFrom k ps) (inVals ps args))
  | [], k, args, fuel, r, t, _, _, hwt, _, hf, _ => by
    cases args with
    | cons a as => simp [reqFieldsFrom, WTm] at hwt
    | nil =>
      obtain ⟨f, rfl⟩ : ∃ f, fuel = f + 1 := ⟨fuel - 1, by simp [needElems] at hf; omega⟩
      simp [inFieldsFrom, decMembers_nil, normMembers]
  | p :: ps, k, args, fuel, r, t, hk, hty, hwt, hs, hf, h => by
    cases args with
    | nil => simp [reqFieldsFrom, WTm] at hwt
    | cons v vs =>
      simp only [reqFieldsFrom, WTm] at hwt
      simp only [reqFieldsFrom, encMembers, List.append_assoc, argField] at h
      have hk' : (k+1) + ps.length + cpArgTagOffset ≤ 256 := by
        simp only [List.length_cons] at hk; omega
      have hty' : ∀ q ∈ ps, TyOK env rk (env.length + 1) q.ty := fun q hq => hty q (by simp [hq])
      have htag : argTag k < 256 := by
        simp only [argTag, List.length_cons] at hk ⊢; omega
      have hr := r.rest_adv _ _ h
      by_cases hout : p.isOut = true
      · -- an out parameter: written by the proxy, not read by the dispatcher
        simp only [outVals, hout, if_true, mapsSmallL, Bool.and_eq_true] at hs
        simp only [inFieldsFrom, inVals, hout, if_true]
        have ih := decIns_rt env rk hE ps (k+1) vs fuel _ t hk' hty' hwt.2 hs.2
          (Nat.le_trans (needElems_tail v vs) hf) hr
        rw [← ih]
        -- the remaining reads start with a member whose tag is higher
        cases hfs : inFieldsFrom (k+1) ps with
        | nil =>
          cases fuel with
          | zero => have := needElems_pos (v :: vs); omega
          | succ f => simp [decMembers_nil]
        | cons g gs =>
          obtain ⟨f, rfl⟩ : ∃ f, fuel = f + 1 := ⟨fuel - 1, by have := needElems_pos (v :: vs); omega⟩
          have hg := (inFieldsFrom_ok env rk ps (k+1) hk' hty' g (by rw [hfs]; simp)).2
          simp only [List.map_cons]
          exact decMembers_head_congr env f g gs _ _ r _
            (decVar_skips env rk hE v (argTag k) p.ty htag hwt.1 hs.1 f g.tag g.req g.ty _
              (by simp only [argTag] at hg ⊢; omega) r _ h)
      · -- an in parameter
        have hin : p.isOut = false := by simpa using hout
        simp only [outVals, hin, Bool.false_eq_true, if_false] at hs
        simp only [inFieldsFrom, inVals, hin, Bool.false_eq_true, if_false, List.map_cons, argField]
        simp only [needElems] at hf
        obtain ⟨f, rfl⟩ : ∃ f, fuel = f + 1 := ⟨fuel - 1, by omega⟩
        rw [decMembers_cons]
        have hv := rt_all env rk hE v f (argTag k) true p.ty none (zeroOf env p.ty) r
          (encMembers env (reqFieldsFrom (k+1) ps) vs ++ t) htag (hty p (by simp)) trivial hwt.1
          (zeroOf_ready hE p.ty (hty p (by simp))) (fun hq => by cases hq) (by omega) h
        rw [hv]
        simp only
        have ih := decIns_rt env rk hE ps (k+1) vs f _ t hk' hty' hwt.2 hs (by omega) hr
        rcases hrec : decMembers env f (inFieldsFrom (k+1) ps)
          ((inFieldsFrom (k+1) ps).map fun fl => zeroOf env fl.ty)
          (r.adv (encVar env (argTag k) true p.ty none v).length) with ⟨a, ra⟩
        rw [hrec] at ih
        simp only at ih
        subst ih
        rw [hrec]
        simp [normMembers]

/-! ## fuel -/

theorem encMembers_req_length (env : Env) : ∀ (fs : List Field) (vs : List Val),
    (∀ f ∈ fs, f.req = true) → WTm env fs vs → vs.length ≤ (encMembers env fs vs).length
  | [], [], _, _ => by simp [encMembers]
  | [], _ :: _, _, h => by simp [WTm] at h
  | _ :: _, [], _, h => by simp [WTm] at h
  | f :: fs, v :: vs, hreq, h => by
    simp only [WTm] at h
    have h1 := encMembers_req_length env fs vs (fun g hg => hreq g (by simp [hg])) h.2
    have h2 := encVar_req_pos env f.tag f.ty f.dflt v h.1
    rw [← hreq f (by simp)] at h2
    simp only [encMembers, List.length_append, List.length_cons]
    omega

/-- `argFuel` suffices for a buffer of required members that is a prefix of the reader's data -/
theorem needElems_le_argFuel (env : Env) (fs : List Field) (vs : List Val) (r : Reader) (t : Bytes)
    (hreq : ∀ f ∈ fs, f.req = true) (hwt : WTm env fs vs)
    (h : r.rest = encMembers env fs vs ++ t) : needElems vs ≤ argFuel env r := by
  have hb := fuelOK_members env vs (fun v _ => fuelOK_all env v) fs hwt
  have hl := encMembers_req_length env fs vs hreq hwt
  have hsz : (encMembers env fs vs).length ≤ r.data.size := by
    have := congrArg List.length h
    simp [Reader.rest] at this
    omega
  unfold argFuel
  have : (env.width + 3) * (encMembers env fs vs).length ≤ (env.width + 3) * r.data.size :=
    Nat.mul_le_mul_left _ hsz
  have e1 : (env.width + 4) * (r.data.size + 2)
      = (env.width + 3) * r.data.size + r.data.size + 2 * (env.width + 4) := by
    simp only [Nat.mul_add, Nat.add_mul]; omega
  omega

theorem mk0_rest (bs : Bytes) : (Reader.mk0 bs).rest = bs ++ [] := by
  simp [Reader.mk0, Reader.rest]

end Tars.CallPath
