/-
  The outer receive loop (`feed`, `feedAll`) over arbitrary chunk sequences: lifting of the
  parse-loop lemmas.
-/
import TarsModel.Proofs.FrameLoop

namespace Tars.Frame
open Tars

theorem feed_open (side : Side) (m : Int) (st : Conn) (c : Bytes) (h : st.status = .open) :
    feed side m st c =
      (⟨(drainServer m (st.buf ++ c)).1, (drainServer m (st.buf ++ c)).2.2⟩,
        (drainServer m (st.buf ++ c)).2.1) := by
  unfold feed
  rw [h, drain_eq]

theorem feed_not_open (side : Side) (m : Int) (st : Conn) (c : Bytes) (h : st.status ≠ .open) :
    feed side m st c = (st, []) := by
  unfold feed
  cases hs : st.status with
  | «open» => exact absurd hs h
  | closed => rfl
  | panicked => rfl

theorem feedAll_not_open (side : Side) (m : Int) (st : Conn) (h : st.status ≠ .open) :
    ∀ cs : List Bytes, feedAll side m st cs = (st, []) := by
  intro cs
  induction cs with
  | nil => rfl
  | cons c cs ih => simp only [feedAll, feed_not_open side m st c h, ih, List.append_nil]

/-- a state of the receive loop at `conn.Read`: what is buffered is an incomplete packet -/
def Settled (m : Int) (st : Conn) : Prop :=
  st.status = .open → drainServer m st.buf = (st.buf, [], .open)

theorem settled_init (m : Int) : Settled m Conn.init := fun _ => drainServer_nil m

theorem settled_feed (side : Side) (m : Int) (st : Conn) (c : Bytes) (hs : Settled m st) :
    Settled m (feed side m st c).1 := by
  by_cases ho : st.status = .open
  · rw [feed_open side m st c ho]
    intro h
    exact drainServer_rest_less m _ h
  · rw [feed_not_open side m st c ho]; exact hs

theorem settled_feedAll (side : Side) (m : Int) :
    ∀ (cs : List Bytes) (st : Conn), Settled m st → Settled m (feedAll side m st cs).1 := by
  intro cs
  induction cs with
  | nil => intro st hs; exact hs
  | cons c cs ih =>
    intro st hs
    simp only [feedAll]
    exact ih _ (settled_feed side m st c hs)

/-- feeding chunk by chunk agrees with feeding the concatenation at once -/
theorem feedAll_flatten (side : Side) (m : Int) :
    ∀ (cs : List Bytes) (st : Conn), Settled m st →
      (feedAll side m st cs).2 = (feed side m st cs.flatten).2 ∧
      (feedAll side m st cs).1.status = (feed side m st cs.flatten).1.status ∧
      ((feedAll side m st cs).1.status = .open →
        (feedAll side m st cs).1.buf = (feed side m st cs.flatten).1.buf) ∧
      (feedAll side m st cs).1.buf <+: (feed side m st cs.flatten).1.buf := by
  intro cs
  induction cs with
  | nil =>
    intro st hs
    by_cases ho : st.status = .open
    · rw [feed_open side m st _ ho]
      simp only [feedAll, List.flatten_nil, List.append_nil]
      rw [hs ho]
      simp [ho]
    · rw [feed_not_open side m st _ ho]
      simp [feedAll]
  | cons c cs ih =>
    intro st hs
    by_cases ho : st.status = .open
    · simp only [feedAll, List.flatten_cons]
      rw [feed_open side m st (c ++ cs.flatten) ho, feed_open side m st c ho, ← List.append_assoc]
      generalize hR : drainServer m (st.buf ++ c) = R
      obtain ⟨r, d, s⟩ := R
      cases s with
      | «open» =>
        have hst : Settled m ⟨r, .open⟩ := by
          intro _
          have := drainServer_rest_less m (st.buf ++ c) (by rw [hR])
          rw [hR] at this
          exact this
        have hi := ih ⟨r, .open⟩ hst
        rw [feed_open side m ⟨r, .open⟩ _ rfl] at hi
        rw [drainServer_append_open m _ r d hR]
        obtain ⟨h1, h2, h3, h4⟩ := hi
        refine ⟨?_, h2, h3, h4⟩
        simp only [h1]
      | closed =>
        rw [feedAll_not_open side m ⟨r, .closed⟩ (by simp)]
        rw [drainServer_append_closed m _ r d hR]
        simp
      | panicked =>
        exact absurd (by rw [hR]) (drainServer_ne_panicked m (st.buf ++ c))
    · rw [feedAll_not_open side m st ho, feed_not_open side m st _ ho]
      simp

/-- conservation for one read -/
theorem feed_conserve (side : Side) (m : Int) (st : Conn) (c : Bytes) (h : st.status = .open) :
    (feed side m st c).2.flatten ++ (feed side m st c).1.buf = st.buf ++ c := by
  rw [feed_open side m st c h]
  exact drainServer_conserve m _

/-- conservation over a whole run: what was delivered followed by what is buffered is exactly what
was read, i.e. the chunks up to and including the one on which the loop stopped -/
theorem feedAll_conserve (side : Side) (m : Int) :
    ∀ (cs : List Bytes) (st : Conn), st.status = .open →
      ∃ k, k ≤ cs.length ∧
        (feedAll side m st cs).2.flatten ++ (feedAll side m st cs).1.buf
          = st.buf ++ (cs.take k).flatten ∧
        ((feedAll side m st cs).1.status = .open → k = cs.length) := by
  intro cs
  induction cs with
  | nil => intro st _; exact ⟨0, Nat.le_refl _, by simp [feedAll], fun _ => rfl⟩
  | cons c cs ih =>
    intro st ho
    have hc := feed_conserve side m st c ho
    simp only [feedAll]
    by_cases ho' : (feed side m st c).1.status = .open
    · obtain ⟨k, hk, he, hf⟩ := ih _ ho'
      refine ⟨k + 1, by simp only [List.length_cons]; omega, ?_, ?_⟩
      · simp only [List.flatten_append, List.append_assoc, List.take_succ_cons, List.flatten_cons]
        rw [he, ← List.append_assoc, hc, List.append_assoc]
      · intro h; simp only [List.length_cons]; rw [hf h]
    · rw [feedAll_not_open side m _ ho']
      refine ⟨1, by simp only [List.length_cons]; omega, ?_, ?_⟩
      · simp only [List.append_nil, List.take_succ_cons, List.take_zero, List.flatten_cons,
          List.flatten_nil]
        exact hc
      · intro h; exact absurd h ho'

theorem feed_wellformed (side : Side) (m : Int) (st : Conn) (c : Bytes) :
    ∀ p ∈ (feed side m st c).2, WellFormed m p := by
  by_cases ho : st.status = .open
  · rw [feed_open side m st c ho]; exact drainServer_wellformed m _
  · rw [feed_not_open side m st c ho]; simp

theorem feedAll_wellformed (side : Side) (m : Int) :
    ∀ (cs : List Bytes) (st : Conn), ∀ p ∈ (feedAll side m st cs).2, WellFormed m p := by
  intro cs
  induction cs with
  | nil => intro st p hp; simp [feedAll] at hp
  | cons c cs ih =>
    intro st p hp
    simp only [feedAll, List.mem_append] at hp
    rcases hp with hp | hp
    · exact feed_wellformed side m st c p hp
    · exact ih _ p hp

theorem feed_ne_panicked (side : Side) (m : Int) (st : Conn) (c : Bytes)
    (h : st.status ≠ .panicked) : (feed side m st c).1.status ≠ .panicked := by
  by_cases ho : st.status = .open
  · rw [feed_open side m st c ho]; exact drainServer_ne_panicked m _
  · rw [feed_not_open side m st c ho]; exact h

theorem feedAll_ne_panicked (side : Side) (m : Int) :
    ∀ (cs : List Bytes) (st : Conn), st.status ≠ .panicked →
      (feedAll side m st cs).1.status ≠ .panicked := by
  intro cs
  induction cs with
  | nil => intro st h; exact h
  | cons c cs ih =>
    intro st h
    simp only [feedAll]
    exact ih _ (feed_ne_panicked side m st c h)

/-- the trace variant computes the same state and packets as `feedAll` -/
theorem feedTrace_eq (side : Side) (m : Int) :
    ∀ (cs : List Bytes) (st : Conn) (n : Nat),
      ((feedTrace side m st n cs).1, (feedTrace side m st n cs).2.1) = feedAll side m st cs := by
  intro cs
  induction cs with
  | nil => intro st n; rfl
  | cons c cs ih =>
    intro st n
    simp only [feedTrace, feedAll]
    have := ih (feed side m st c).1 (n + (feed side m st c).2.length)
    rw [← this]

/-- a proper prefix of a legal framed packet is an incomplete packet -/
theorem drainServer_frame_prefix {m : Int} {p : Bytes} (hp : Legal m p) (k : Nat)
    (hk : k < (frame p).length) :
    drainServer m ((frame p).take k) = ((frame p).take k, [], .open) := by
  have hlen : ((frame p).take k).length = k := by simp only [List.length_take]; omega
  by_cases h4 : k < 4
  · exact drainServer_less (tarsRequest_short m _ (by omega))
  · have hv : hdrVal ((frame p).take k) = p.length + 4 := by
      have := hdrVal_frame p [] hp.2
      rw [List.append_nil] at this
      unfold hdrVal at this ⊢
      rw [List.take_take, Nat.min_eq_left (by omega)]
      exact this
    have e := tarsRequest_long m ((frame p).take k) (by omega)
    rw [hv, hlen] at e
    rw [frame_length] at hk
    have := hp.1
    rw [if_neg (by omega), if_pos (by omega)] at e
    exact drainServer_less e

/-- every connection of a session is handled as if it were the first one -/
theorem session_eq_map (side : Side) (m : Int) :
    ∀ (conns : List (List Bytes)) (prev : Conn),
      session side m prev conns = conns.map (feedAll side m Conn.init) := by
  intro conns
  induction conns with
  | nil => intro _; rfl
  | cons cs rest ih =>
    intro prev
    simp only [session, reconnect, List.map_cons]
    rw [ih]

end Tars.Frame
