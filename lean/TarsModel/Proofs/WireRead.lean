import TarsModel.Proofs.Wire

/-! Per wire-type read lemmas: what each `ReadX` returns when the field with the wanted tag is
    next in the input. -/
namespace Tars
open Consts

section
variable (r : Reader) (tag : Nat) (req : Bool) (t : Bytes) (htag : tag < 256)
include htag

set_option hygiene false in
local macro "hit_zero" f:ident : tactic =>
  `(tactic| (
      unfold $f
      rw [skipToNoCheck_hit r tyZeroTag tag req t (by decide) (by decide) htag h]
      simp))

set_option hygiene false in
local macro "hit_byte" f:ident : tactic =>
  `(tactic| (
      unfold $f
      have h' : r.rest = writeHead tyBYTE tag ++ (b :: t) := by simpa using h
      rw [skipToNoCheck_hit r tyBYTE tag req (b :: t) (by decide) (by decide) htag h']
      have hr := r.rest_adv _ _ h'
      simp [bReadU8_cons _ b t hr, mapRes, Nat.add_comm]))

theorem readInt8_zero (old : Int) (h : r.rest = writeHead tyZeroTag tag ++ t) :
    readInt8 old tag req r = (.ok 0, r.adv (writeHead tyZeroTag tag).length) := by hit_zero readInt8
theorem readInt16_zero (old : Int) (h : r.rest = writeHead tyZeroTag tag ++ t) :
    readInt16 old tag req r = (.ok 0, r.adv (writeHead tyZeroTag tag).length) := by hit_zero readInt16
theorem readInt32_zero (old : Int) (h : r.rest = writeHead tyZeroTag tag ++ t) :
    readInt32 old tag req r = (.ok 0, r.adv (writeHead tyZeroTag tag).length) := by hit_zero readInt32
theorem readInt64_zero (old : Int) (h : r.rest = writeHead tyZeroTag tag ++ t) :
    readInt64 old tag req r = (.ok 0, r.adv (writeHead tyZeroTag tag).length) := by hit_zero readInt64

theorem readInt8_byte (old : Int) (b : Byte) (h : r.rest = writeHead tyBYTE tag ++ [b] ++ t) :
    readInt8 old tag req r = (.ok (toS 8 b.val), r.adv ((writeHead tyBYTE tag).length + 1)) := by
  hit_byte readInt8
theorem readInt16_byte (old : Int) (b : Byte) (h : r.rest = writeHead tyBYTE tag ++ [b] ++ t) :
    readInt16 old tag req r = (.ok (toS 8 b.val), r.adv ((writeHead tyBYTE tag).length + 1)) := by
  hit_byte readInt16
theorem readInt32_byte (old : Int) (b : Byte) (h : r.rest = writeHead tyBYTE tag ++ [b] ++ t) :
    readInt32 old tag req r = (.ok (toS 8 b.val), r.adv ((writeHead tyBYTE tag).length + 1)) := by
  hit_byte readInt32
theorem readInt64_byte (old : Int) (b : Byte) (h : r.rest = writeHead tyBYTE tag ++ [b] ++ t) :
    readInt64 old tag req r = (.ok (toS 8 b.val), r.adv ((writeHead tyBYTE tag).length + 1)) := by
  hit_byte readInt64

/-- generic: after the head of type `ty`, an `n`-byte big-endian payload -/
theorem hit_fixed (ty n x : Nat) (hty : ty < 16) (hne : ty ≠ tyStructEnd) (hn : 0 < n)
    (h : r.rest = writeHead ty tag ++ be n x ++ t) :
    skipToNoCheck tag req r = (.ok (true, ty), r.adv (writeHead ty tag).length) ∧
    bReadU n (r.adv (writeHead ty tag).length)
      = (.ok (x % 256 ^ n), r.adv ((writeHead ty tag).length + n)) := by
  have h' : r.rest = writeHead ty tag ++ (be n x ++ t) := by simpa using h
  refine ⟨skipToNoCheck_hit r ty tag req _ hty hne htag h', ?_⟩
  have hr := r.rest_adv _ _ h'
  rw [bReadU_be _ n x t hn hr]
  simp

theorem readInt16_short (old : Int) (x : Nat) (h : r.rest = writeHead tySHORT tag ++ be 2 x ++ t) :
    readInt16 old tag req r
      = (.ok (toS 16 (x % 256 ^ 2)), r.adv ((writeHead tySHORT tag).length + 2)) := by
  obtain ⟨h1, h2⟩ := hit_fixed r tag req t htag tySHORT 2 x (by decide) (by decide) (by decide) h
  unfold readInt16; rw [h1]; simp +decide [h2, mapRes]
theorem readInt32_short (old : Int) (x : Nat) (h : r.rest = writeHead tySHORT tag ++ be 2 x ++ t) :
    readInt32 old tag req r
      = (.ok (toS 16 (x % 256 ^ 2)), r.adv ((writeHead tySHORT tag).length + 2)) := by
  obtain ⟨h1, h2⟩ := hit_fixed r tag req t htag tySHORT 2 x (by decide) (by decide) (by decide) h
  unfold readInt32; rw [h1]; simp +decide [h2, mapRes]
theorem readInt64_short (old : Int) (x : Nat) (h : r.rest = writeHead tySHORT tag ++ be 2 x ++ t) :
    readInt64 old tag req r
      = (.ok (toS 16 (x % 256 ^ 2)), r.adv ((writeHead tySHORT tag).length + 2)) := by
  obtain ⟨h1, h2⟩ := hit_fixed r tag req t htag tySHORT 2 x (by decide) (by decide) (by decide) h
  unfold readInt64; rw [h1]; simp +decide [h2, mapRes]

theorem readInt32_int (old : Int) (x : Nat) (h : r.rest = writeHead tyINT tag ++ be 4 x ++ t) :
    readInt32 old tag req r
      = (.ok (toS 32 (x % 256 ^ 4)), r.adv ((writeHead tyINT tag).length + 4)) := by
  obtain ⟨h1, h2⟩ := hit_fixed r tag req t htag tyINT 4 x (by decide) (by decide) (by decide) h
  unfold readInt32; rw [h1]; simp +decide [h2, mapRes]
theorem readInt64_int (old : Int) (x : Nat) (h : r.rest = writeHead tyINT tag ++ be 4 x ++ t) :
    readInt64 old tag req r
      = (.ok (toS 32 (x % 256 ^ 4)), r.adv ((writeHead tyINT tag).length + 4)) := by
  obtain ⟨h1, h2⟩ := hit_fixed r tag req t htag tyINT 4 x (by decide) (by decide) (by decide) h
  unfold readInt64; rw [h1]; simp +decide [h2, mapRes]

theorem readInt64_long (old : Int) (x : Nat) (h : r.rest = writeHead tyLONG tag ++ be 8 x ++ t) :
    readInt64 old tag req r
      = (.ok (toS 64 (x % 256 ^ 8)), r.adv ((writeHead tyLONG tag).length + 8)) := by
  obtain ⟨h1, h2⟩ := hit_fixed r tag req t htag tyLONG 8 x (by decide) (by decide) (by decide) h
  unfold readInt64; rw [h1]; simp +decide [h2, mapRes]

theorem readFloat32_float (old : Nat) (x : Nat) (h : r.rest = writeHead tyFLOAT tag ++ be 4 x ++ t) :
    readFloat32 old tag req r
      = (.ok (x % 256 ^ 4), r.adv ((writeHead tyFLOAT tag).length + 4)) := by
  obtain ⟨h1, h2⟩ := hit_fixed r tag req t htag tyFLOAT 4 x (by decide) (by decide) (by decide) h
  unfold readFloat32; rw [h1]; simp +decide [h2]
theorem readFloat64_float (old : Nat) (x : Nat) (h : r.rest = writeHead tyFLOAT tag ++ be 4 x ++ t) :
    readFloat64 old tag req r
      = (.ok (widenF32 (x % 256 ^ 4)), r.adv ((writeHead tyFLOAT tag).length + 4)) := by
  obtain ⟨h1, h2⟩ := hit_fixed r tag req t htag tyFLOAT 4 x (by decide) (by decide) (by decide) h
  unfold readFloat64; rw [h1]; simp +decide [h2, mapRes]
theorem readFloat64_double (old : Nat) (x : Nat) (h : r.rest = writeHead tyDOUBLE tag ++ be 8 x ++ t) :
    readFloat64 old tag req r
      = (.ok (x % 256 ^ 8), r.adv ((writeHead tyDOUBLE tag).length + 8)) := by
  obtain ⟨h1, h2⟩ := hit_fixed r tag req t htag tyDOUBLE 8 x (by decide) (by decide) (by decide) h
  unfold readFloat64; rw [h1]; simp +decide [h2]

end

/-- `Next(n)` when at least `n` bytes remain -/
theorem next_full (r : Reader) (s t : Bytes) (h : r.rest = s ++ t) :
    next (s.length : Int) r = (.ok s, r.adv s.length) := by
  unfold next
  by_cases hs : s = []
  · subst hs; simp [Reader.adv]
  · have hpos : 0 < s.length := List.length_pos_iff.mpr hs
    have : ¬ ((s.length : Int) ≤ 0) := by omega
    simp only [this, if_false]
    have hlen : r.pos + s.length ≤ r.data.size := by
      have := congrArg List.length h
      simp [Reader.rest] at this
      omega
    simp only [Reader.remaining, Int.toNat_natCast, Reader.adv]
    have e1 : r.data.size - (r.data.size - r.pos) = r.pos := by omega
    have e2 : r.data.size - (r.data.size - (r.pos + s.length)) = r.pos + s.length := by omega
    rw [e1, e2]
    congr 1
    unfold Reader.rest at h
    rw [takeFrom_eq]
    have : r.pos + s.length - r.pos = s.length := by omega
    rw [this, h]
    simp

theorem nextExact_full (r : Reader) (s t : Bytes) (h : r.rest = s ++ t) :
    nextExact s.length r = (.ok s, r.adv s.length) := by
  unfold nextExact
  rw [next_full r s t h]
  simp

theorem readString_string1 (r : Reader) (tag : Nat) (req : Bool) (old s t : Bytes) (htag : tag < 256)
    (hs : s.length < 256)
    (h : r.rest = writeHead tySTRING1 tag ++ [byte s.length] ++ s ++ t) :
    readString old tag req r = (.ok s, r.adv ((writeHead tySTRING1 tag).length + 1 + s.length)) := by
  have h' : r.rest = writeHead tySTRING1 tag ++ (byte s.length :: (s ++ t)) := by simpa using h
  unfold readString
  rw [skipToNoCheck_hit r tySTRING1 tag req _ (by decide) (by decide) htag h']
  have hr := r.rest_adv _ _ h'
  have hr2 : ((r.adv (writeHead tySTRING1 tag).length).adv 1).rest = s ++ t := by
    have := (r.adv (writeHead tySTRING1 tag).length).rest_adv [byte s.length] (s ++ t) (by simpa using hr)
    simpa using this
  have hb : (byte s.length).val = s.length := by simp [Nat.mod_eq_of_lt hs]
  simp only [bReadU8_cons _ _ _ hr, hb]
  have hn := nextExact_full _ s t hr2
  simp only [Reader.adv_adv] at hn
  simp +decide [hn, Nat.add_assoc]

theorem readString_string4 (r : Reader) (tag : Nat) (req : Bool) (old s t : Bytes) (htag : tag < 256)
    (hs : s.length < 2 ^ 32)
    (h : r.rest = writeHead tySTRING4 tag ++ be 4 s.length ++ s ++ t) :
    readString old tag req r = (.ok s, r.adv ((writeHead tySTRING4 tag).length + 4 + s.length)) := by
  have h' : r.rest = writeHead tySTRING4 tag ++ be 4 s.length ++ (s ++ t) := by simpa using h
  obtain ⟨h1, h2⟩ := hit_fixed r tag req (s ++ t) htag tySTRING4 4 s.length (by decide) (by decide)
    (by decide) h'
  unfold readString
  rw [h1]
  have hmod : s.length % 256 ^ 4 = s.length := Nat.mod_eq_of_lt (by simpa using hs)
  have hr : (r.adv ((writeHead tySTRING4 tag).length + 4)).rest = s ++ t := by
    have := r.rest_adv (writeHead tySTRING4 tag ++ be 4 s.length) (s ++ t) h'
    simpa using this
  have hn := nextExact_full _ s t hr
  simp only [Reader.adv_adv] at hn
  simp +decide [h2, hmod, hn]

end Tars
