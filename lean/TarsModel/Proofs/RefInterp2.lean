import TarsModel.Proofs.RefInterp

/-!
# Reference decoder, stage 2b: scalars, absent members, containers, structs
-/
namespace Tars
open Consts
namespace Ref

/-- interpretation statement for one present member/element -/
def IR (env : Env) (rk : String → Nat) (v : Val) : Prop :=
  ∀ (fuel tag : Nat) (req : Bool) (ty : Ty) (dflt : Option Val),
    TyOK env rk (env.length + 1) ty → WT env ty v → encVar env tag req ty dflt v ≠ [] →
    needVar v ≤ fuel →
    interp env fuel ty (tlvVar env tag ty v) = some (normVar env req ty dflt v)

/-- a scalar leaf is interpreted as the scalar -/
theorem interp_scalar (env : Env) (fuel tag : Nat) (ty : Ty) (v : Val) (hv : ScalarOK ty v) :
    interp env (fuel+1) ty (tlvScalar ty v tag) = some v := by
  rw [interp_succ]
  cases v with
  | int i =>
    have hts : tlvScalar ty (.int i) tag = intTlv tag i := by
      cases ty <;> first | rfl | simp [ScalarOK] at hv
    rw [hts]
    cases ty <;> simp only [ScalarOK] at hv
    all_goals exact interpInt_ok _ i tag (by intro h; cases h) (by simpa only [ScalarOK] using hv)
  | bool b =>
    cases ty <;> simp only [ScalarOK] at hv
    cases b <;> simp +decide [tlvScalar, interpBool, intTlv, Tlv.ty, Tlv.width, Tlv.ival,
      Tars.minWidth, intTy]
  | f32 bits =>
    cases ty <;> simp only [ScalarOK] at hv
    simp [tlvScalar, Tlv.ty, Tlv.bits]
  | f64 bits =>
    cases ty <;> simp only [ScalarOK] at hv
    simp [tlvScalar, Tlv.ty, Tlv.bits]
  | str s =>
    cases ty <;> simp only [ScalarOK] at hv
    simp only [tlvScalar, Tlv.ty, Tlv.str]
    by_cases hl : s.length > 255 <;> simp [hl]
  | list _ => cases ty <;> simp [ScalarOK] at hv
  | map _ => cases ty <;> simp [ScalarOK] at hv
  | struct _ => cases ty <;> simp [ScalarOK] at hv

theorem ir_scalar (env : Env) (rk : String → Nat) (v : Val)
    (hsc : ∀ ty, WT env ty v → ScalarOK ty v)
    (htv : ∀ tag ty, tlvVar env tag ty v = tlvScalar ty v tag) : IR env rk v := by
  intro fuel tag req ty dflt _ hwt hne hfuel
  have hv := hsc ty hwt
  obtain ⟨f, rfl⟩ : ∃ f, fuel = f + 1 := ⟨fuel - 1, by have := needVar_pos v; omega⟩
  rw [htv, interp_scalar env f tag ty v hv]
  rw [encVar_scalarVal env tag req ty dflt v hv] at hne
  rw [normVar_present env req ty dflt v hv]
  by_cases he : ty = .enum
  · exact Or.inl he
  · right
    intro hc
    rw [if_neg he, if_pos hc] at hne
    exact hne rfl

/-! ## absent optional members -/

theorem zeroRef_atom (env : Env) (n : Nat) (ty : Ty) (h : ty.isAtom = true) :
    zeroRef env n ty = scalarZero ty := by
  cases ty <;> first
    | (simp [zeroRef, scalarZero]; done)
    | (simp [Ty.isAtom, Ty.isScalar] at h; done)

/-- an optional member that was not written reads back (in the normal form) as its default: the
    explicit default, else the Go zero value -/
theorem absent_norm (env : Env) (n tag : Nat) (req : Bool) (ty : Ty) (dflt : Option Val) (v : Val)
    (hwt : WT env ty v) (hd : DfltOK ty dflt) (h0 : encVar env tag req ty dflt v = []) :
    req = false ∧
    normVar env req ty dflt v = dflt.getD (zeroRef env n ty) := by
  have hreq : req = false := by
    cases req with
    | false => rfl
    | true => exact absurd h0 (encVar_req_ne env tag ty dflt v hwt)
  subst hreq
  refine ⟨rfl, ?_⟩
  have scal : ∀ (hv : ScalarOK ty v),
      normVar env false ty dflt v = dflt.getD (zeroRef env n ty) := by
    intro hv
    have hat := scalarOK_isAtom hv
    rw [encVar_scalarVal env tag false ty dflt v hv] at h0
    have hne : scalarNeDefault ty dflt v = false := by
      by_cases he : ty = .enum
      · rw [if_pos he] at h0; exact absurd h0 (writeScalar_ne ty v tag hv)
      · rw [if_neg he] at h0
        by_cases hc : (!false && !scalarNeDefault ty dflt v) = true
        · simpa using hc
        · rw [if_neg hc] at h0; exact absurd h0 (writeScalar_ne ty v tag hv)
    rw [normVar_absent env ty dflt v hv hne]
    cases dflt with
    | none => simp [zeroRef_atom env n ty hat]
    | some d => rfl
  cases v with
  | list vs =>
    cases ty <;> simp only [WT] at hwt
    all_goals
      have hdn := dflt_none_of_nonatom hd (by rfl)
      subst hdn
      rw [encVar] at h0
      have hvs : vs = [] := by
        by_cases c1 : (!false && vs.isEmpty) = true
        · cases vs <;> simp_all
        · rw [if_neg c1] at h0
          split at h0
          · exact absurd h0 (HeadAt.ne_nil ⟨tySimpleList, _, by decide, by decide, by (simp only [List.append_assoc]; rfl)⟩)
          · exact absurd h0 (HeadAt.ne_nil ⟨tyLIST, _, by decide, by decide, by (simp only [List.append_assoc]; rfl)⟩)
      subst hvs
      simp only [normVar, normElems]
    · simp [zeroRef]
    · have : (0 : Nat) = _ := hwt.1
      subst this
      simp [zeroRef]
  | map kvs =>
    cases ty <;> simp only [WT] at hwt
    have hdn := dflt_none_of_nonatom hd (by rfl)
    subst hdn
    rw [encVar] at h0
    have hvs : kvs = [] := by
      by_cases c1 : (!false && kvs.isEmpty) = true
      · cases kvs <;> simp_all
      · rw [if_neg c1] at h0
        exact absurd h0 (HeadAt.ne_nil ⟨tyMAP, _, by decide, by decide, by (simp only [List.append_assoc]; rfl)⟩)
    subst hvs
    simp [normVar, normPairs, zeroRef]
  | struct vs =>
    exact absurd h0 (by
      cases ty <;> simp only [WT] at hwt
      rename_i name
      rw [encVar]
      cases hfs : env.find name with
      | none => simp [hfs] at hwt
      | some fs =>
        simp only
        exact (HeadAt.ne_nil ⟨tyStructBegin, _, by decide, by decide, by (simp only [List.append_assoc]; rfl)⟩))
  | bool b => exact scal (by simpa only [WT] using hwt)
  | int b => exact scal (by simpa only [WT] using hwt)
  | f32 b => exact scal (by simpa only [WT] using hwt)
  | f64 b => exact scal (by simpa only [WT] using hwt)
  | str b => exact scal (by simpa only [WT] using hwt)

end Ref
end Tars
