/-
  Progress (no deadlock) and a termination measure for the pool model (C19).
-/
import TarsModel.Proofs.PoolInv

namespace Tars.Pool

theorem le_sumBy_of_get {α : Type} (f : α → Nat) :
    ∀ (l : List α) (i : Nat) (x : α), l[i]? = some x → f x ≤ sumBy f l
  | [], i, x, h => by simp at h
  | y :: ys, 0, x, h => by simp at h; subst h; simp [sumBy]
  | y :: ys, i + 1, x, h => by
    simp at h
    have := le_sumBy_of_get f ys i x h
    simp [sumBy]; omega

/-- `w.WorkerQueue <- w` never blocks: a worker about to register finds room in `WorkerQueue` -/
theorem reg_has_room {cfg : Cfg} {s : State} (hi : Inv cfg s) {k : Wid}
    (hk : s.ws[k]? = some .reg) : s.idleQ.length < cfg.n := by
  have h1 := sumBy_set WPc.isWait s.ws k .reg .wait hk
  have h2 := sumBy_le_length WPc.isWait WPc.isWait_le (s.ws.set k .wait)
  have h3 := hi.idleCount
  have h4 := hi.len
  simp [WPc.isWait] at h1 h2 h3
  omega

/-- a worker that is about to register, has received a job, or runs one, can take a step -/
theorem worker_enabled {cfg : Cfg} {s : State} (hi : Inv cfg s) {k : Wid} {x : WPc}
    (hk : s.ws[k]? = some x) (hx : x.isWait = 0 ∧ x.isDead = 0 ∧ x.isAck = 0) :
    ∃ a : Action, a.isEnv = false ∧ (step cfg s a).isSome := by
  cases x with
  | reg =>
    refine ⟨.wReg k, rfl, ?_⟩
    have := reg_has_room hi hk
    simp [step, stepWReg, hk, this]
  | got j => exact ⟨.start k j, rfl, by simp [step, stepStart, hk]⟩
  | run j => exact ⟨.fin k j, rfl, by simp [step, stepFin, hk]⟩
  | wait => simp [WPc.isWait] at hx
  | stopAck => simp [WPc.isAck] at hx
  | dead => simp [WPc.isDead] at hx

/-- **Progress.** Unless `Release` has returned, or it was never called and every submitted job is
    done, some non-environment action is enabled. -/
theorem progress {cfg : Cfg} {s : State} (hi : Inv cfg s) (hn : 1 ≤ cfg.n)
    (hidle : s.rel = .idle → ∃ j, j ∈ s.submitted ∧ j ∉ s.done)
    (hret : s.rel ≠ .returned) :
    ∃ a : Action, a.isEnv = false ∧ (step cfg s a).isSome := by
  have hph := hi.phase
  cases hd : s.d with
  | sel =>
    cases hr : s.rel with
    | called => exact ⟨.relSend, rfl, by simp [step, stepRelSend, hr, hd]⟩
    | idle =>
      cases hq : s.jobQ with
      | cons j rest => exact ⟨.dTake, rfl, by simp [step, stepDTake, hd, hq]⟩
      | nil =>
        obtain ⟨j, hj, hjd⟩ := hidle hr
        have hc := hi.cons j
        have h1 : 0 < s.submitted.count j := List.count_pos_iff.mpr hj
        have h2 : s.done.count j = 0 := List.count_eq_zero.mpr hjd
        simp [hq, hd, DPc.jobs, h2] at hc
        have h3 : 0 < wcount j s.ws := by omega
        obtain ⟨k, x, hk, hx⟩ := exists_of_sumBy_pos _ s.ws h3
        refine worker_enabled hi hk ?_
        cases x <;> simp [WPc.jobs, WPc.isWait, WPc.isDead, WPc.isAck] at hx ⊢
    | sent => simp [hr, hd, phaseOk] at hph
    | acked => simp [hr, hd, phaseOk] at hph
    | returned => exact absurd hr hret
  | hold j =>
    cases hq : s.idleQ with
    | cons w rest => exact ⟨.dPick, rfl, by simp [step, stepDPick, hd, hq]⟩
    | nil =>
      have hlen := hi.len
      have hW := hi.idleCount
      have hD := hi.deadCnt
      have hA := hi.ackCnt
      simp [hd, hq, DPc.picked, DPc.stopIdx, DPc.ackN] at hW hD hA
      have h0 : 0 < s.ws.length := by omega
      have hk : s.ws[0]? = some (s.ws[0]'h0) := by simp
      exact worker_enabled hi hk ⟨sumBy_eq_zero _ _ hW.symm 0 _ hk, sumBy_eq_zero _ _ hD 0 _ hk,
        sumBy_eq_zero _ _ hA 0 _ hk⟩
  | give j w =>
    have := hi.idleWait w (by simp [hd, DPc.picked])
    exact ⟨.dGive, rfl, by simp [step, stepDGive, hd, this]⟩
  | stop i =>
    have hr : s.rel = .sent := by
      cases hr : s.rel <;> simp [hr, hd, phaseOk] at hph ⊢
    by_cases hlt : i < cfg.n
    · have hlen := hi.len
      have hW := hi.idleCount
      have hD := hi.deadCnt
      have hA := hi.ackCnt
      simp [hd, DPc.picked, DPc.stopIdx, DPc.ackN] at hW hD hA
      obtain ⟨k, x, hk, hx⟩ := exists_of_sumBy_lt WPc.isDead WPc.isDead_le s.ws (by omega)
      by_cases hw : x.isWait = 0
      · exact worker_enabled hi hk ⟨hw, hx, by
          have := le_sumBy_of_get WPc.isAck s.ws k x hk
          omega⟩
      · have := le_sumBy_of_get WPc.isWait s.ws k x hk
        cases hq : s.idleQ with
        | nil => simp [hq] at hW; omega
        | cons w rest => exact ⟨.sTake, rfl, by simp [step, stepSTake, hd, hq, hlt]⟩
    · exact ⟨.dAck, rfl, by simp [step, stepDAck, hd, hr, hlt]⟩
  | stopSend i w =>
    have := hi.idleWait w (by simp [hd, DPc.picked])
    exact ⟨.sSend, rfl, by simp [step, stepSSend, hd, this]⟩
  | stopWait i w =>
    have := hi.ackW i w hd
    exact ⟨.sAck, rfl, by simp [step, stepSAck, hd, this]⟩
  | done =>
    cases hr : s.rel with
    | acked => exact ⟨.relRet, rfl, by simp [step, stepRelRet, hr]⟩
    | returned => exact absurd hr hret
    | idle => simp [hr, hd, phaseOk] at hph
    | called => simp [hr, hd, phaseOk] at hph
    | sent => simp [hr, hd, phaseOk] at hph

/-! ### termination measure -/

def WPc.wt : WPc → Nat
  | .reg => 1 | .wait => 0 | .got _ => 3 | .run _ => 2 | .stopAck => 0 | .dead => 0

def DPc.wt (n : Nat) : DPc → Nat
  | .sel => 0 | .hold _ => 5 | .give _ _ => 4
  | .stop i => 3 * (n - i) + 1
  | .stopSend i _ => 3 * (n - i)
  | .stopWait i _ => 3 * (n - i) - 1
  | .done => 0

def RPc.wt (n : Nat) : RPc → Nat
  | .idle => 0 | .called => 3 * n + 3 | .sent => 1 | .acked => 1 | .returned => 0

/-- upper bound on the number of non-environment steps that can still happen without new work -/
def mu (cfg : Cfg) (s : State) : Nat :=
  6 * s.jobQ.length + sumBy WPc.wt s.ws + s.d.wt cfg.n + s.rel.wt cfg.n + s.retq.length

theorem length_filter_ne_lt (l : List Job) (j : Job) (h : j ∈ l) :
    (l.filter (· != j)).length < l.length := by
  induction l with
  | nil => simp at h
  | cons x xs ih =>
    simp only [List.filter_cons]
    by_cases hx : x = j
    · subst hx
      have := List.length_filter_le (· != x) xs
      simp; omega
    · have hm : j ∈ xs := by
        cases h with
        | head => exact absurd rfl hx
        | tail _ h => exact h
      have := ih hm
      simp [hx]; omega

/-- **Variant.** Every non-environment step strictly decreases `mu`. -/
theorem variant {cfg : Cfg} {s s' : State} {a : Action} (hi : Inv cfg s)
    (h : step cfg s a = some s') (ha : a.isEnv = false) : mu cfg s' < mu cfg s := by
  have hph := hi.phase
  cases a <;> simp only [step, Action.isEnv] at h ha
  case subCall => cases ha
  case subSend => cases ha
  case relCall => cases ha
  case subRet j =>
    unfold stepSubRet at h
    split at h
    · rename_i hm
      cases h
      have := length_filter_ne_lt _ _ hm
      simp [mu]; omega
    · cases h
  case wReg w =>
    unfold stepWReg at h
    split at h
    · rename_i hc
      have := sumBy_set WPc.wt s.ws w .reg .wait hc.1
      cases h
      simp [mu, WPc.wt] at this ⊢; omega
    · cases h
  case dTake =>
    unfold stepDTake at h
    split at h
    · rename_i hd hq
      cases h
      simp [mu, hd, hq, DPc.wt]; omega
    · cases h
  case dPick =>
    unfold stepDPick at h
    split at h
    · rename_i hd hq
      cases h
      simp [mu, hd, DPc.wt]
    · cases h
  case dGive =>
    unfold stepDGive at h
    split at h
    · split at h
      · rename_i j w hd hget
        have := sumBy_set WPc.wt s.ws w .wait (.got j) hget
        cases h
        simp [mu, hd, DPc.wt, WPc.wt] at this ⊢; omega
      · cases h
    · cases h
  case start w j =>
    unfold stepStart at h
    split at h
    · rename_i hget
      have := sumBy_set WPc.wt s.ws w (.got j) (.run j) hget
      cases h
      simp [mu, WPc.wt] at this ⊢; omega
    · cases h
  case fin w j =>
    unfold stepFin at h
    split at h
    · rename_i hget
      have := sumBy_set WPc.wt s.ws w (.run j) .reg hget
      cases h
      simp [mu, WPc.wt] at this ⊢; omega
    · cases h
  case relSend =>
    unfold stepRelSend at h
    split at h
    · rename_i hc
      cases h
      simp [mu, hc.1, hc.2, DPc.wt, RPc.wt]; omega
    · cases h
  case sTake =>
    unfold stepSTake at h
    split at h
    · split at h
      · rename_i hd hq hlt
        cases h
        simp [mu, hd, DPc.wt]
      · cases h
    · cases h
  case sSend =>
    unfold stepSSend at h
    split at h
    · split at h
      · rename_i i w hd hget
        have := sumBy_set WPc.wt s.ws w .wait .stopAck hget
        have hr : i < cfg.n := by
          cases hr : s.rel <;> simp [hr, hd, phaseOk] at hph ⊢; exact hph
        cases h
        simp [mu, hd, DPc.wt, WPc.wt] at this ⊢; omega
      · cases h
    · cases h
  case sAck =>
    unfold stepSAck at h
    split at h
    · split at h
      · rename_i i w hd hget
        have := sumBy_set WPc.wt s.ws w .stopAck .dead hget
        have hr : i < cfg.n := by
          cases hr : s.rel <;> simp [hr, hd, phaseOk] at hph ⊢; exact hph
        cases h
        simp [mu, hd, DPc.wt, WPc.wt] at this ⊢; omega
      · cases h
    · cases h
  case dAck =>
    unfold stepDAck at h
    split at h
    · split at h
      · rename_i i hd hc
        cases h
        have : cfg.n - i = 0 := by omega
        simp [mu, hd, hc.2, DPc.wt, RPc.wt, this]
      · cases h
    · cases h
  case relRet =>
    unfold stepRelRet at h
    split at h
    · rename_i hr
      cases h
      simp [mu, hr, RPc.wt]
    · cases h

end Tars.Pool
