import TarsModel.Proofs.RefInterp2

/-!
# Reference decoder, stage 2c: containers, nested structs, all values
-/
namespace Tars
open Consts
namespace Ref

theorem sext8_bytes (env : Env) (vs : List Val) (h : WTs env .i8 vs) :
    (int8Bytes vs).map (fun c => Val.int (sext 8 c.val)) = vs := by
  have h1 := (int8_roundtrip env vs h).1
  have h2 : (int8Bytes vs).map (fun c => Val.int (sext 8 c.val)) = bytesToVals true (int8Bytes vs) := by
    simp only [bytesToVals, if_true]
    apply List.map_congr_left
    intro c _
    rw [sext_eq_toS 8 c.val (by have := c.isLt; omega)]
  rw [h2, h1]

theorem normElems_length (env : Env) (e : Ty) : ∀ (vs : List Val),
    (normElems env e vs).length = vs.length
  | [] => rfl
  | _ :: vs => by simp [normElems, normElems_length env e vs]

theorem interpElems_enc (env : Env) (rk : String → Nat) (e : Ty)
    (he : TyOK env rk (env.length + 1) e) : ∀ (vs : List Val), (∀ v ∈ vs, IR env rk v) →
    WTs env e vs → ∀ (fuel : Nat), needElems vs ≤ fuel →
      interpElems env fuel e (tlvElems env e vs) = some (normElems env e vs)
  | [], _, _, fuel, hf => by
    obtain ⟨f, rfl⟩ : ∃ f, fuel = f + 1 := ⟨fuel - 1, by simp [needElems] at hf; omega⟩
    simp [tlvElems, normElems, interpElems_nil]
  | v :: vs, ih, hwt, fuel, hf => by
    simp only [needElems] at hf
    obtain ⟨f, rfl⟩ : ∃ f, fuel = f + 1 := ⟨fuel - 1, by omega⟩
    simp only [WTs] at hwt
    simp only [tlvElems, normElems, interpElems_cons]
    rw [ih v (by simp) f 0 true e none he hwt.1 (encVar_req_ne env 0 e none v hwt.1) (by omega)]
    simp only
    rw [interpElems_enc env rk e he vs (fun w hw => ih w (by simp [hw])) hwt.2 f (by omega)]

theorem ir_list (env : Env) (rk : String → Nat) (vs : List Val) (ih : ∀ v ∈ vs, IR env rk v) :
    IR env rk (.list vs) := by
  intro fuel tag req ty dflt hty hwt hne hfuel
  simp only [needVar] at hfuel
  obtain ⟨f, rfl⟩ : ∃ f, fuel = f + 1 := ⟨fuel - 1, by omega⟩
  rw [interp_succ]
  cases ty <;> simp only [WT] at hwt
  case vec e =>
    simp only [TyOK] at hty
    simp only [tlvVar, normVar]
    by_cases c2 : e = .i8
    · subst c2
      simp +decide only [if_true, Tlv.ty, Tlv.str]
      rw [sext8_bytes env vs hwt.2, (int8_roundtrip env vs hwt.2).2.1]
    · simp only [c2, if_false, Tlv.ty, Tlv.kids]
      simp +decide only [if_true, if_false]
      rw [interpElems_enc env rk e hty vs ih hwt.2 f (by omega)]
  case arr n e =>
    simp only [TyOK] at hty
    simp only [tlvVar, normVar, hty.1, if_false, Tlv.ty, Tlv.kids]
    simp +decide only [if_true]
    rw [interpElems_enc env rk e hty.2.2 vs ih hwt.2.2 f (by omega)]
    simp only [normElems_length, hwt.1, ne_eq, not_true_eq_false, if_false]

/-! ## maps -/

theorem goEq_eq_keyEq (a b : Val) : goEq a b = keyEq a b := by
  cases a <;> cases b <;> simp [goEq, keyEq, f32Eq, f64Eq, f32IsNaN, f64IsNaN]

theorem interpPairs_enc (env : Env) (rk : String → Nat) (k v : Ty)
    (hk : TyOK env rk (env.length + 1) k) (hv : TyOK env rk (env.length + 1) v) :
    ∀ (kvs : List (Val × Val)), (∀ p ∈ kvs, IR env rk p.1 ∧ IR env rk p.2) → WTp env k v kvs →
      KeysDistinct kvs → ∀ (fuel : Nat) (acc : List (Val × Val)),
        (∀ p ∈ acc, ∀ q ∈ kvs, keyEq p.1 q.1 = false) → needPairs kvs ≤ fuel →
        interpPairs env fuel k v (tlvPairs env k v kvs) acc = some (acc ++ normPairs env k v kvs)
  | [], _, _, _, fuel, acc, _, hf => by
    obtain ⟨f, rfl⟩ : ∃ f, fuel = f + 1 := ⟨fuel - 1, by simp [needPairs] at hf; omega⟩
    simp [tlvPairs, normPairs, interpPairs_nil]
  | (a, b) :: kvs, ih, hwt, hdist, fuel, acc, hacc, hf => by
    simp only [needPairs] at hf
    obtain ⟨f, rfl⟩ : ∃ f, fuel = f + 1 := ⟨fuel - 1, by omega⟩
    simp only [WTp] at hwt
    have iha : IR env rk a := (ih (a, b) (by simp)).1
    have ihb : IR env rk b := (ih (a, b) (by simp)).2
    simp only [tlvPairs, normPairs, interpPairs_cons]
    rw [iha f 0 true k none hk hwt.1 (encVar_req_ne env 0 k none a hwt.1) (by omega)]
    simp only
    rw [ihb f 1 true v none hv hwt.2.1 (encVar_req_ne env 1 v none b hwt.2.1) (by omega)]
    simp only
    have hfresh : acc.any (fun p => goEq p.1 (normVar env true k none a)) = false := by
      rw [List.any_eq_false]
      intro p hp
      rw [goEq_eq_keyEq, keyEq_norm_right]
      simp [hacc p hp (a, b) (by simp)]
    rw [hfresh]
    simp only [Bool.false_eq_true, if_false]
    have hd := List.pairwise_cons.mp hdist
    rw [interpPairs_enc env rk k v hk hv kvs (fun p hp => ih p (by simp [hp])) hwt.2.2 hd.2 f
      (acc ++ [(normVar env true k none a, normVar env true v none b)])
      (by
        intro p hp q hq
        rcases List.mem_append.mp hp with hp | hp
        · exact hacc p hp q (by simp [hq])
        · simp only [List.mem_singleton] at hp
          subst hp
          simp only
          rw [keyEq_norm_left]
          exact hd.1 q hq)
      (by omega)]
    simp

theorem ir_map (env : Env) (rk : String → Nat) (kvs : List (Val × Val))
    (ih : ∀ p ∈ kvs, IR env rk p.1 ∧ IR env rk p.2) : IR env rk (.map kvs) := by
  intro fuel tag req ty dflt hty hwt hne hfuel
  simp only [needVar] at hfuel
  obtain ⟨f, rfl⟩ : ∃ f, fuel = f + 1 := ⟨fuel - 1, by omega⟩
  rw [interp_succ]
  cases ty <;> simp only [WT] at hwt
  rename_i k v
  simp only [TyOK] at hty
  simp only [tlvVar, normVar, Tlv.ty, Tlv.kids]
  simp +decide only [if_false]
  rw [interpPairs_enc env rk k v hty.1 hty.2 kvs ih hwt.2.2 hwt.2.1 f []
    (by intro p hp; cases hp) (by omega)]
  simp

/-! ## structs -/

theorem tlvMembers_tags (env : Env) : ∀ (fs : List Field) (vs : List Val), WTm env fs vs →
    ∀ m ∈ tlvMembers env fs vs, ∃ f ∈ fs, m.tag = f.tag
  | [], [], _, m, hm => by simp [tlvMembers] at hm
  | [], _ :: _, h, _, _ => by simp [WTm] at h
  | _ :: _, [], h, _, _ => by simp [WTm] at h
  | g :: gs, v :: vs, h, m, hm => by
    simp only [WTm] at h
    simp only [tlvMembers] at hm
    split at hm
    · obtain ⟨f, hf, hft⟩ := tlvMembers_tags env gs vs h.2 m hm
      exact ⟨f, by simp [hf], hft⟩
    · rcases List.mem_cons.mp hm with rfl | hm
      · exact ⟨g, by simp, tlvVar_tag env g.tag g.ty v h.1⟩
      · obtain ⟨f, hf, hft⟩ := tlvMembers_tags env gs vs h.2 m hm
        exact ⟨f, by simp [hf], hft⟩

theorem ascending_members (env : Env) : ∀ (fs : List Field) (vs : List Val) (last : Int),
    WTm env fs vs → TagsAsc fs → (∀ f ∈ fs, last < (f.tag : Int)) →
    ascending last (tlvMembers env fs vs) = true
  | [], [], _, _, _, _ => by simp [tlvMembers, ascending]
  | [], _ :: _, _, h, _, _ => by simp [WTm] at h
  | _ :: _, [], _, h, _, _ => by simp [WTm] at h
  | g :: gs, v :: vs, last, h, hasc, hlast => by
    simp only [WTm] at h
    have hasc' := List.pairwise_cons.mp hasc
    simp only [tlvMembers]
    split
    · exact ascending_members env gs vs last h.2 hasc'.2 (fun f hf => hlast f (by simp [hf]))
    · simp only [ascending, tlvVar_tag env g.tag g.ty v h.1, Bool.and_eq_true, decide_eq_true_eq]
      refine ⟨hlast g (by simp), ?_⟩
      exact ascending_members env gs vs _ h.2 hasc'.2
        (fun f hf => by have := hasc'.1 f hf; omega)

theorem interpFields_enc (env : Env) (rk : String → Nat) (b : Nat) (hb : b ≤ env.length) :
    ∀ (vs : List Val), (∀ v ∈ vs, IR env rk v) → ∀ (fs : List Field) (fuel : Nat),
      (∀ f ∈ fs, FieldOK env rk b f) → TagsAsc fs → WTm env fs vs → needElems vs ≤ fuel →
      interpFields env fuel fs (tlvMembers env fs vs) = some (normMembers env fs vs)
  | [], _, fs, fuel, _, _, hwt, hf => by
    obtain ⟨f, rfl⟩ : ∃ f, fuel = f + 1 := ⟨fuel - 1, by simp [needElems] at hf; omega⟩
    cases fs with
    | nil => simp [tlvMembers, normMembers, interpFields_nil]
    | cons g gs => simp [WTm] at hwt
  | v :: vs, ih, fs, fuel, hfs, hasc, hwt, hf => by
    simp only [needElems] at hf
    obtain ⟨f, rfl⟩ : ∃ f, fuel = f + 1 := ⟨fuel - 1, by omega⟩
    cases fs with
    | nil => simp [WTm] at hwt
    | cons g gs =>
      simp only [WTm] at hwt
      have hg := hfs g (by simp)
      have hasc' := List.pairwise_cons.mp hasc
      have ihrest := interpFields_enc env rk b hb vs (fun w hw => ih w (by simp [hw])) gs f
        (fun f' hf' => hfs f' (by simp [hf'])) hasc'.2 hwt.2 (by omega)
      simp only [tlvMembers, normMembers]
      by_cases h0 : encVar env g.tag g.req g.ty g.dflt v = []
      · rw [if_pos h0]
        obtain ⟨hreq, hnorm⟩ := absent_norm env (env.length + 1) g.tag g.req g.ty g.dflt v hwt.1
          hg.dfltOK h0
        rw [interpFields_absent env f g gs _ hreq
          (by
            intro m hm
            have hmem : m ∈ tlvMembers env gs vs := by
              cases hl : tlvMembers env gs vs with
              | nil => simp [hl] at hm
              | cons x xs => simp [hl] at hm; simp [hm]
            obtain ⟨f', hf', hft⟩ := tlvMembers_tags env gs vs hwt.2 m hmem
            have := hasc'.1 f' hf'
            omega)]
        rw [ihrest, hnorm]
        cases g.dflt <;> rfl
      · rw [if_neg h0]
        rw [interpFields_here env f g gs _ _ (tlvVar_tag env g.tag g.ty v hwt.1)]
        rw [ih v (by simp) f g.tag g.req g.ty g.dflt (TyOK.mono (by omega) hg.2.1) hwt.1 h0
          (by omega)]
        simp only
        rw [ihrest]

theorem ir_struct (env : Env) (rk : String → Nat) (hE : EnvWF env rk) (vs : List Val)
    (ih : ∀ v ∈ vs, IR env rk v) : IR env rk (.struct vs) := by
  intro fuel tag req ty dflt hty hwt hne hfuel
  simp only [needVar] at hfuel
  obtain ⟨f, rfl⟩ : ∃ f, fuel = f + 1 := ⟨fuel - 1, by omega⟩
  rw [interp_succ]
  cases ty <;> simp only [WT] at hwt
  rename_i name
  cases hfs : env.find name with
  | none => simp [hfs] at hwt
  | some fs =>
    simp only [hfs] at hwt
    obtain ⟨hrk, hasc, hfok⟩ := hE name fs hfs
    simp only [tlvVar, normVar, hfs, Tlv.ty, Tlv.kids]
    simp +decide only [if_false]
    rw [ascending_members env fs vs (-1) hwt hasc (fun f _ => by omega)]
    simp only [Bool.not_true, Bool.false_eq_true, if_false]
    rw [interpFields_enc env rk (rk name) hrk vs ih fs f hfok hasc hwt (by omega)]

theorem ir_all (env : Env) (rk : String → Nat) (hE : EnvWF env rk) : ∀ v, IR env rk v :=
  Val.ind
    (fun b => ir_scalar env rk _ (fun ty h => by simpa only [WT] using h) (fun _ _ => by simp only [tlvVar]))
    (fun i => ir_scalar env rk _ (fun ty h => by simpa only [WT] using h) (fun _ _ => by simp only [tlvVar]))
    (fun b => ir_scalar env rk _ (fun ty h => by simpa only [WT] using h) (fun _ _ => by simp only [tlvVar]))
    (fun b => ir_scalar env rk _ (fun ty h => by simpa only [WT] using h) (fun _ _ => by simp only [tlvVar]))
    (fun s => ir_scalar env rk _ (fun ty h => by simpa only [WT] using h) (fun _ _ => by simp only [tlvVar]))
    (ir_list env rk) (ir_map env rk) (ir_struct env rk hE)

end Ref
end Tars
