import TarsModel.Proofs.RefTop

/-!
# What acceptance by the strict reference decoder means (for arbitrary input bytes)

If `decRef` accepts a byte string then the whole input parses as a sequence of fields whose tags
are strictly ascending (hence each at most once), every field carries a declared tag, every
required member is present, and an integer-typed field is in its narrowest width.
-/
namespace Tars
open Consts
namespace Ref

theorem interpInt_strict (ty : Ty) (f : Tlv) (v : Val) (h : interpInt ty f = some v) :
    (f.ty = 12 ∨ f.ty ≤ 3) ∧ f.width = Ref.minWidth f.ival ∧ v = .int f.ival := by
  unfold interpInt at h
  split at h
  · cases h
  · rename_i h1
    split at h
    · cases h
    · rename_i lo hi maxw _
      split at h
      · cases h
      · split at h
        · cases h
        · split at h
          · cases h
          · rename_i h5
            cases h
            exact ⟨Decidable.not_not.mp h1, Decidable.not_not.mp h5, rfl⟩

theorem ascending_spec : ∀ (ms : List Tlv) (last : Int), ascending last ms = true →
    (∀ m ∈ ms, last < (m.tag : Int)) ∧ ms.Pairwise (fun a b => a.tag < b.tag)
  | [], _, _ => by simp
  | m :: ms, last, h => by
    simp only [ascending, Bool.and_eq_true, decide_eq_true_eq] at h
    obtain ⟨ih1, ih2⟩ := ascending_spec ms _ h.2
    refine ⟨?_, List.pairwise_cons.mpr ⟨fun b hb => by have := ih1 b hb; omega, ih2⟩⟩
    intro x hx
    rcases List.mem_cons.mp hx with rfl | hx
    · exact h.1
    · have := ih1 x hx; omega

theorem interpFields_zero (env : Env) (fs : List Field) (ms : List Tlv) :
    interpFields env 0 fs ms = none := by
  unfold interpFields; rfl

theorem interpFields_nil_cons (env : Env) (fuel : Nat) (m : Tlv) (ms : List Tlv) :
    interpFields env (fuel+1) [] (m :: ms) = none := by
  conv => lhs; unfold interpFields

/-- a required member whose field is not next is an error -/
theorem interpFields_missing (env : Env) (fuel : Nat) (f : Field) (fs : List Field) (ms : List Tlv)
    (hreq : f.req = true) (h : ∀ m ∈ ms.head?, m.tag ≠ f.tag) :
    interpFields env (fuel+1) (f :: fs) ms = none := by
  conv => lhs; unfold interpFields
  cases ms with
  | nil => simp only [hreq]; rfl
  | cons m ms' =>
    have : ¬ m.tag = f.tag := h m (by simp)
    simp only [hreq, this, if_false]; rfl

/-- acceptance of a member list: every field carries a declared tag, every required member is
    present, one value per declared member -/
theorem interpFields_strict (env : Env) : ∀ (fuel : Nat) (fs : List Field) (ms : List Tlv)
    (vs : List Val), interpFields env fuel fs ms = some vs →
      (∀ m ∈ ms, ∃ f ∈ fs, f.tag = m.tag) ∧ (∀ f ∈ fs, f.req = true → ∃ m ∈ ms, m.tag = f.tag) ∧
      vs.length = fs.length
  | 0, fs, ms, vs, h => by rw [interpFields_zero] at h; cases h
  | fuel+1, [], [], vs, h => by
    rw [interpFields_nil] at h; cases h; simp
  | fuel+1, [], m :: ms, vs, h => by rw [interpFields_nil_cons] at h; cases h
  | fuel+1, f :: fs, ms, vs, h => by
    by_cases hhere : ∃ m ms', ms = m :: ms' ∧ m.tag = f.tag
    · obtain ⟨m, ms', rfl, ht⟩ := hhere
      rw [interpFields_here env fuel f fs m ms' ht] at h
      cases hi : interp env fuel f.ty m with
      | none => simp [hi] at h
      | some v =>
        simp only [hi] at h
        cases hr : interpFields env fuel fs ms' with
        | none => simp [hr] at h
        | some ws =>
          simp only [hr, Option.some.injEq] at h
          subst h
          obtain ⟨a, b, c⟩ := interpFields_strict env fuel fs ms' ws hr
          refine ⟨?_, ?_, by simp [c]⟩
          · intro x hx
            rcases List.mem_cons.mp hx with rfl | hx
            · exact ⟨f, by simp, ht.symm⟩
            · obtain ⟨g, hg, hgt⟩ := a x hx; exact ⟨g, by simp [hg], hgt⟩
          · intro g hg hreq
            rcases List.mem_cons.mp hg with rfl | hg
            · exact ⟨m, by simp, ht⟩
            · obtain ⟨x, hx, hxt⟩ := b g hg hreq; exact ⟨x, by simp [hx], hxt⟩
    · have hnot : ∀ m ∈ ms.head?, m.tag ≠ f.tag := by
        intro m hm ht
        apply hhere
        cases ms with
        | nil => simp at hm
        | cons x xs => simp at hm; subst hm; exact ⟨_, _, rfl, ht⟩
      by_cases hreq : f.req = true
      · rw [interpFields_missing env fuel f fs ms hreq hnot] at h; cases h
      · have hreq' : f.req = false := by simpa using hreq
        rw [interpFields_absent env fuel f fs ms hreq' hnot] at h
        cases hr : interpFields env fuel fs ms with
        | none => simp [hr] at h
        | some ws =>
          simp only [hr, Option.some.injEq] at h
          subst h
          obtain ⟨a, b, c⟩ := interpFields_strict env fuel fs ms ws hr
          refine ⟨?_, ?_, by simp [c]⟩
          · intro x hx
            obtain ⟨g, hg, hgt⟩ := a x hx; exact ⟨g, by simp [hg], hgt⟩
          · intro g hg hreqg
            rcases List.mem_cons.mp hg with rfl | hg
            · exact absurd hreqg hreq
            · exact b g hg hreqg

/-- what acceptance by the strict reference decoder guarantees about arbitrary bytes `b` -/
theorem decRef_strict (env : Env) (S : String) (fs : List Field) (b : Bytes) (w : Val)
    (hfs : env.find S = some fs) (h : decRef env S b = some w) :
    ∃ ms vs, parseTop b.length (b.length + 2) b = some ms ∧ w = .struct vs ∧
      vs.length = fs.length ∧
      ms.Pairwise (fun x y => x.tag < y.tag) ∧
      (∀ m ∈ ms, ∃ f ∈ fs, f.tag = m.tag) ∧
      (∀ f ∈ fs, f.req = true → ∃ m ∈ ms, m.tag = f.tag) := by
  unfold decRef at h
  simp only [hfs] at h
  cases hp : parseTop b.length (b.length + 2) b with
  | none => simp [hp] at h
  | some ms =>
    simp only [hp] at h
    by_cases ha : ascending (-1) ms = true
    · simp only [ha, Bool.not_true, Bool.false_eq_true, if_false] at h
      cases hi : interpFields env (refFuel env b.length) fs ms with
      | none => simp [hi] at h
      | some vs =>
        simp only [hi, Option.some.injEq] at h
        obtain ⟨a, c, d⟩ := interpFields_strict env _ fs ms vs hi
        exact ⟨ms, vs, rfl, h.symm, d, (ascending_spec ms _ ha).2, a, c⟩
    · simp [ha] at h

end Ref
end Tars
