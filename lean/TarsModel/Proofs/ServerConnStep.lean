import TarsModel.Proofs.ServerConnInv

/-!
Helper lemmas for C12, part 3: every action of the LTS preserves the global invariant; lifting to
runs; monotonicity of the connection table along runs.
-/
namespace Tars.ServerConn

theorem ginv_ciBegin {cfg : Cfg} {s : State} {b : Bool} (hI : GInv cfg s) (hs : s.spc = .polling) :
    GInv cfg { s with pass := some { todo := registeredIds s, all := true, holding := none },
                      lastPass := registeredIds s, firstPoll := true, fpNotified := b } := by
  refine ⟨hI.conns, hI.safe, ?_, ?_, ?_, ?_, hI.poolInv⟩
  · intro _ p h
    simp at h; subst h; rfl
  · intro c hc
    obtain ⟨k, hk, hr⟩ := mem_registeredIds hc
    exact ⟨k, hk, started_of_registered (hI.conns c k hk) hr⟩
  · intro p h
    simp at h; subst h
    exact ⟨hs, fun _ c hc => Or.inl hc⟩
  · intro hr
    simp at hr; rw [hs] at hr; contradiction

theorem ginv_step {cfg : Cfg} {s s' : State} (a : Action) (hI : GInv cfg s)
    (h : step cfg s a = some s') : GInv cfg s' := by
  cases a with
  | connect =>
    simp only [step, Option.some.injEq] at h; subst h; exact ginv_connect hI
  | send c r => exact ginv_updConn (good_cSend false r) (Or.inl (stay_cSend false r)) hI h
  | sendNR c r => exact ginv_updConn (good_cSend true r) (Or.inl (stay_cSend true r)) hI h
  | accept c =>
    simp only [step] at h
    split at h
    · rename_i ha; exact ginv_updConn good_cAccept (Or.inr ha) hI h
    · contradiction
  | register c => exact ginv_updConn good_cRegister (Or.inl stay_cRegister) hI h
  | stamp c => exact ginv_updConn good_cStamp (Or.inl stay_cStamp) hI h
  | read c n => exact ginv_updConn (good_cRead n) (Or.inl (stay_cRead n)) hI h
  | readErr c f => exact ginv_updConn (good_cReadErr _ _ f) (Or.inl (stay_cReadErr _ _ f)) hI h
  | age c => exact ginv_updConn good_cAge (Or.inl stay_cAge) hI h
  | dispatch c => exact ginv_updConn (good_cDispatch _) (Or.inl (stay_cDispatch _)) hI h
  | enqueue c =>
    simp only [step] at h
    split at h <;> try contradiction
    rename_i n q k hp hk
    split at h <;> try contradiction
    rename_i k' i hce
    have hce' : cEnqueued' k = some k' := by simp [cEnqueued', hce]
    have hki := hI.conns c k hk
    split at h
    · simp only [Option.some.injEq] at h; subst h
      exact ginv_set hI hk (good_cEnqueued'.inv k k' hce' hki) (good_cEnqueued'.mono k k' hce')
        (fun _ hs => good_cEnqueued'.safe k k' hce' hki hs) (Or.inl (stay_cEnqueued' k k' hce'))
        rfl rfl rfl rfl rfl rfl
    · split at h <;> try contradiction
      simp only [Option.some.injEq] at h; subst h
      exact ginv_set hI hk (good_cEnqueued'.inv k k' hce' hki) (good_cEnqueued'.mono k k' hce')
        (fun _ hs => good_cEnqueued'.safe k k' hce' hki hs) (Or.inl (stay_cEnqueued' k k' hce'))
        rfl rfl rfl rfl rfl rfl
  | pTake =>
    simp only [step] at h
    split at h <;> try contradiction
    split at h <;> try contradiction
    simp only [Option.some.injEq] at h; subst h
    exact ginv_globals hI rfl rfl rfl (Or.inl rfl) hI.poolInv
  | pGive =>
    simp only [step] at h
    split at h <;> try contradiction
    rename_i n q c i hp hh
    split at h <;> try contradiction
    cases hu : updConn s c (cHand i) with
    | none => rw [hu] at h; contradiction
    | some s1 =>
      rw [hu] at h
      simp only [Option.map_some, Option.some.injEq] at h; subst h
      have h1 := ginv_updConn (good_cHand i) (Or.inl (stay_cHand i)) hI hu
      exact ginv_globals h1 rfl rfl rfl (Or.inl rfl) h1.poolInv
  | start c i =>
    simp only [step] at h
    split at h
    · exact ginv_updConn (good_cStartP i) (Or.inl (stay_cStartP i)) hI h
    · exact ginv_updConn (good_cStart i) (Or.inl (stay_cStart i)) hI h
  | fin c i =>
    simp only [step] at h
    split at h
    · contradiction
    · exact ginv_updConn (good_cFin i) (Or.inl (stay_cFin i)) hI h
  | finEarly c i =>
    simp only [step] at h
    split at h
    · exact ginv_updConn (good_cFinEarly i) (Or.inl (stay_cFinEarly i)) hI h
    · contradiction
  | lateWrite c i => exact ginv_updConn (good_cLateWrite i) (Or.inl (stay_cLateWrite i)) hI h
  | write c i => exact ginv_updConn (good_cWrite i) (Or.inl (stay_cWrite i)) hI h
  | skip c i => exact ginv_updConn (good_cSkip _ i) (Or.inl (stay_cSkip _ i)) hI h
  | dec c i => exact ginv_updConn (good_cDec i) (Or.inl (stay_cDec i)) hI h
  | drainTick c =>
    simp only [step] at h
    split at h <;> try contradiction
    split at h <;> try contradiction
    exact ginv_updConn good_cDrainTick (Or.inl stay_cDrainTick) hI h
  | drainClose c => exact ginv_updConn good_cDrainClose (Or.inl stay_cDrainClose) hI h
  | shutdownCall =>
    simp only [step] at h
    split at h <;> try contradiction
    rename_i hs
    simp only [Option.some.injEq] at h; subst h
    exact ginv_globals hI rfl rfl rfl (Or.inr ⟨Or.inr (by rw [hs]; simp), by simp⟩) hI.poolInv
  | setClosed =>
    simp only [step] at h
    split at h <;> try contradiction
    rename_i hs
    simp only [Option.some.injEq] at h; subst h
    exact ginv_globals hI rfl rfl rfl (Or.inr ⟨Or.inr (by rw [hs]; simp), by simp⟩) hI.poolInv
  | acceptExit =>
    simp only [step] at h
    split at h <;> try contradiction
    rename_i hg
    simp only [Option.some.injEq] at h; subst h
    refine ginv_globals hI rfl rfl rfl (Or.inl rfl) ?_
    intro hra hne
    exact absurd hg.1 (hI.poolInv hra hne).1
  | relCall =>
    simp only [step] at h
    split at h <;> try contradiction
    rename_i hg
    simp only [Option.some.injEq] at h; subst h
    refine ginv_globals hI rfl rfl rfl (Or.inl rfl) ?_
    intro hra _
    exact ⟨by simp, allGone_of_check (hg.2 hra)⟩
  | pStop =>
    simp only [step] at h
    split at h <;> try contradiction
    rename_i hg
    simp only [Option.some.injEq] at h; subst h
    refine ginv_globals hI rfl rfl rfl (Or.inl rfl) ?_
    intro hra _
    exact hI.poolInv hra (by rw [hg.1]; simp)
  | relRet =>
    simp only [step] at h
    split at h <;> try contradiction
    rename_i hg
    simp only [Option.some.injEq] at h; subst h
    refine ginv_globals hI rfl rfl rfl (Or.inl rfl) ?_
    intro hra _
    exact ⟨by simp, (hI.poolInv hra (by rw [hg.1]; simp)).2⟩
  | closeMsg =>
    simp only [step] at h
    split at h <;> try contradiction
    split at h <;> try contradiction
    simp only [Option.some.injEq] at h; subst h
    exact ginv_notifyAll hI
  | onShutdownRet =>
    simp only [step] at h
    split at h <;> try contradiction
    rename_i hs
    simp only [Option.some.injEq] at h; subst h
    exact ginv_globals hI rfl rfl rfl (Or.inr ⟨Or.inr (by rw [hs]; simp), by simp⟩) hI.poolInv
  | ciBegin =>
    simp only [step] at h
    split at h <;> try contradiction
    rename_i hs hp
    simp only [Option.some.injEq] at h; subst h
    by_cases hl : s.listenClosed = 1
    · simp only [hl, if_true]
      exact ginv_ciBegin (ginv_notifyAll hI) hs
    · simp only [hl, if_false]
      exact ginv_ciBegin hI hs
  | ciVisit c =>
    simp only [step] at h
    split at h <;> try contradiction
    rename_i p hp
    split at h <;> try contradiction
    rename_i hg
    split at h <;> try contradiction
    rename_i k hk
    obtain ⟨hpoll, hall⟩ := hI.passInv p hp
    have hki := hI.conns c k hk
    -- the part of the pass invariant that does not depend on what happens to c
    have hother : ∀ c' ∈ s.lastPass, c' ≠ c → p.all = true →
        c' ∈ p.todo.erase c ∨ p.holding = some c' ∨ ClosedAt s.conns c' := by
      intro c' hc' hne ha
      rcases hall ha c' hc' with h1 | h1 | h1
      · exact Or.inl ((List.mem_erase_of_ne hne).mpr h1)
      · exact Or.inr (Or.inl h1)
      · exact Or.inr (Or.inr h1)
    split at h
    · -- deleted from the map meanwhile: its goroutine has closed it
      rename_i hr
      simp only [Option.some.injEq] at h; subst h
      refine ⟨hI.conns, hI.safe, ?_, hI.lastStarted, ?_, ?_, hI.poolInv⟩
      · intro hci p' h'; simp at h'; subst h'; exact hI.noHold hci p hp
      · intro p' h'
        simp at h'; subst h'
        refine ⟨hpoll, ?_⟩
        intro ha c' hc'
        by_cases hne : c' = c
        · subst hne
          obtain ⟨k2, hk2, hst⟩ := hI.lastStarted c' hc'
          rw [hk] at hk2; cases hk2
          exact Or.inr (Or.inr ⟨k, hk, closed_of_unregistered_started hki (by simpa using hr) hst⟩)
        · exact hother c' hc' hne ha
      · intro hr'; simp at hr'; rw [hpoll] at hr'; contradiction
    · split at h
      · -- busy or fresh: allClosed := false
        simp only [Option.some.injEq] at h; subst h
        refine ⟨hI.conns, hI.safe, ?_, hI.lastStarted, ?_, ?_, hI.poolInv⟩
        · intro hci p' h'; simp at h'; subst h'; exact hI.noHold hci p hp
        · intro p' h'
          simp at h'; subst h'
          exact ⟨hpoll, fun ha => by simp at ha⟩
        · intro hr'; simp at hr'; rw [hpoll] at hr'; contradiction
      · rename_i hidle
        have hz : k.numInvoke = 0 := by
          have : ¬ 0 < k.numInvoke := fun hh => hidle (Or.inl hh)
          omega
        split at h
        · -- as found: remember the connection, close later
          rename_i hci
          simp only [Option.some.injEq] at h; subst h
          refine ⟨hI.conns, hI.safe, ?_, hI.lastStarted, ?_, ?_, hI.poolInv⟩
          · intro hne; exact absurd hci hne
          · intro p' h'
            simp at h'; subst h'
            refine ⟨hpoll, ?_⟩
            intro ha c' hc'
            by_cases hne : c' = c
            · subst hne; exact Or.inr (Or.inl rfl)
            · rcases hother c' hc' hne ha with h1 | h1 | h1
              · exact Or.inl h1
              · rw [hg.2] at h1; contradiction
              · exact Or.inr (Or.inr h1)
          · intro hr'; simp at hr'; rw [hpoll] at hr'; contradiction
        · -- atomic: close now
          simp only [Option.some.injEq] at h; subst h
          have hmono : ConnsMono s.conns (s.conns.set c (cCloseByIdles k)) :=
            connsMono_set hk (connMono_cCloseByIdles k)
          refine ⟨connsInv_set hI.conns hk (connInv_cCloseByIdles hki), ?_, ?_, ?_, ?_, ?_, ?_⟩
          · intro hci
            exact connsSafe_set (hI.safe hci) hk (connSafe_cCloseByIdles hki (hI.safe hci c k hk) hz)
          · intro hci p' h'; simp at h'; subst h'; exact hI.noHold hci p hp
          · intro c' hc'; exact (hI.lastStarted c' hc').mono hmono
          · intro p' h'
            simp at h'; subst h'
            refine ⟨hpoll, ?_⟩
            intro ha c' hc'
            by_cases hne : c' = c
            · subst hne
              exact Or.inr (Or.inr ⟨cCloseByIdles k, getElem?_set_self' hk, rfl⟩)
            · rcases hother c' hc' hne ha with h1 | h1 | h1
              · exact Or.inl h1
              · exact Or.inr (Or.inl h1)
              · exact Or.inr (Or.inr (h1.mono hmono))
          · intro hr'; simp at hr'; rw [hpoll] at hr'; contradiction
          · intro hra hne
            obtain ⟨ha, hgone⟩ := hI.poolInv hra hne
            exact ⟨ha, allGone_set hgone hk (connMono_cCloseByIdles k) (fun hb => hb)⟩
        · -- kick only: allClosed := false
          simp only [Option.some.injEq] at h; subst h
          refine ⟨hI.conns, hI.safe, ?_, hI.lastStarted, ?_, ?_, hI.poolInv⟩
          · intro hci p' h'; simp at h'; subst h'; exact hI.noHold hci p hp
          · intro p' h'
            simp at h'; subst h'
            exact ⟨hpoll, fun ha => by simp at ha⟩
          · intro hr'; simp at hr'; rw [hpoll] at hr'; contradiction
  | ciClose =>
    simp only [step] at h
    split at h <;> try contradiction
    rename_i p hp
    split at h <;> try contradiction
    rename_i c hh
    split at h <;> try contradiction
    rename_i k hk
    simp only [Option.some.injEq] at h; subst h
    obtain ⟨hpoll, hall⟩ := hI.passInv p hp
    have hki := hI.conns c k hk
    have hmono : ConnsMono s.conns (s.conns.set c (cCloseByIdles k)) :=
      connsMono_set hk (connMono_cCloseByIdles k)
    refine ⟨connsInv_set hI.conns hk (connInv_cCloseByIdles hki), ?_, ?_, ?_, ?_, ?_, ?_⟩
    · intro hci
      have := hI.noHold hci p hp
      rw [hh] at this; contradiction
    · intro hci p' h'; simp at h'; subst h'; rfl
    · intro c' hc'; exact (hI.lastStarted c' hc').mono hmono
    · intro p' h'
      simp at h'; subst h'
      refine ⟨hpoll, ?_⟩
      intro ha c' hc'
      rcases hall ha c' hc' with h1 | h1 | h1
      · exact Or.inl h1
      · rw [hh] at h1; cases h1
        exact Or.inr (Or.inr ⟨cCloseByIdles k, getElem?_set_self' hk, rfl⟩)
      · exact Or.inr (Or.inr (h1.mono hmono))
    · intro hr'; simp at hr'; rw [hpoll] at hr'; contradiction
    · intro hra hne
      obtain ⟨ha, hgone⟩ := hI.poolInv hra hne
      exact ⟨ha, allGone_set hgone hk (connMono_cCloseByIdles k) (fun hb => hb)⟩
  | ciEnd =>
    simp only [step] at h
    split at h <;> try contradiction
    rename_i p hs hp
    split at h <;> try contradiction
    rename_i hg
    simp only [Option.some.injEq] at h; subst h
    obtain ⟨_, hall⟩ := hI.passInv p hp
    refine ⟨hI.conns, hI.safe, ?_, hI.lastStarted, ?_, ?_, hI.poolInv⟩
    · intro _ p' h'; simp at h'
    · intro p' h'; simp at h'
    · intro hr
      simp at hr
      have ha : p.all = true := by
        cases hpa : p.all with
        | true => rfl
        | false => rw [hpa] at hr; simp at hr
      intro c hc
      rcases hall ha c hc with h1 | h1 | h1
      · rw [hg.1] at h1; simp at h1
      · rw [hg.2] at h1; contradiction
      · exact h1
  | ctxExpire =>
    simp only [step] at h
    split at h <;> try contradiction
    rename_i hs hp
    simp only [Option.some.injEq] at h; subst h
    exact ginv_globals hI rfl rfl rfl (Or.inr ⟨Or.inl hp, by simp⟩) hI.poolInv
  | recvRsp c i => exact ginv_updConn (good_cRecvRsp i) (Or.inl (stay_cRecvRsp i)) hI h
  | recvMsg c => exact ginv_updConn good_cRecvMsg (Or.inl stay_cRecvMsg) hI h
  | recvEof c => exact ginv_updConn good_cRecvEof (Or.inl stay_cRecvEof) hI h

theorem ginv_reachable {cfg : Cfg} {s : State} (h : Reachable cfg s) : GInv cfg s := by
  induction h with
  | init => exact ginv_init cfg
  | step a _ hs ih => exact ginv_step a ih hs

theorem runFrom_reachable {cfg : Cfg} {acts : List Action} : ∀ {s s' : State},
    Reachable cfg s → runFrom cfg s acts = some s' → Reachable cfg s' := by
  induction acts with
  | nil => intro s s' hr h; simp [runFrom] at h; subst h; exact hr
  | cons a as ih =>
    intro s s' hr h
    simp only [runFrom] at h
    split at h <;> try contradiction
    rename_i s1 hs1
    exact ih (Reachable.step a hr hs1) h

theorem run_reachable {cfg : Cfg} {acts : List Action} {s : State} (h : run cfg acts = some s) :
    Reachable cfg s := runFrom_reachable Reachable.init h

end Tars.ServerConn
