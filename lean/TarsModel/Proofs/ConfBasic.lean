/-
  Helper lemmas for the config-parser model (C17): `strings.Trim`, the line scanner, the
  association-list map.
-/
import TarsModel.Model.Conf

namespace Tars.Conf
open Tars

/-! ## dropWhile / trim -/

theorem dropWhile_append_stop {α : Type} (p : α → Bool) (x : List α) (c : α) (y : List α) (hc : p c = false) :
    (x ++ c :: y).dropWhile p = x.dropWhile p ++ c :: y := by
  induction x with
  | nil => simp [List.dropWhile, hc]
  | cons a x ih =>
    by_cases ha : p a = true
    · simp [List.dropWhile, ha, ih]
    · simp [List.dropWhile, ha]

theorem dropWhile_all {α : Type} (p : α → Bool) (x : List α) (h : ∀ a ∈ x, p a = true) :
    x.dropWhile p = [] := by
  induction x with
  | nil => rfl
  | cons a x ih =>
    have ha : p a = true := h a (by simp)
    simp [List.dropWhile, ha]
    exact ih (fun b hb => h b (by simp [hb]))

theorem dropWhile_all_append {α : Type} (p : α → Bool) (x y : List α) (h : ∀ a ∈ x, p a = true) :
    (x ++ y).dropWhile p = y.dropWhile p := by
  induction x with
  | nil => rfl
  | cons a x ih =>
    have ha : p a = true := h a (by simp)
    simp [ha]
    exact ih (fun b hb => h b (by simp [hb]))

/-- all bytes of `w` are in the cut set -/
def allIn (cut : Txt) (w : Txt) : Prop := ∀ b ∈ w, inSet cut b = true

theorem trimRight_stop (cut a : Txt) (c : Byte) (t : Txt) (hc : inSet cut c = false) :
    trimRight cut (a ++ c :: t) = a ++ c :: trimRight cut t := by
  unfold trimRight
  rw [List.reverse_append, List.reverse_cons, List.append_assoc]
  rw [show [c] ++ a.reverse = c :: a.reverse from rfl]
  rw [dropWhile_append_stop _ _ _ _ hc]
  simp

theorem trimRight_allIn (cut w : Txt) (h : allIn cut w) : trimRight cut w = [] := by
  unfold trimRight
  rw [dropWhile_all]
  · rfl
  · intro b hb; exact h b (by simpa using hb)

theorem trimLeft_allIn_append (cut w s : Txt) (h : allIn cut w) : trimLeft cut (w ++ s) = trimLeft cut s := by
  unfold trimLeft; exact dropWhile_all_append _ _ _ h

theorem trimLeft_stop (cut : Txt) (c : Byte) (t : Txt) (hc : inSet cut c = false) :
    trimLeft cut (c :: t) = c :: t := by
  unfold trimLeft; rw [List.dropWhile_cons, hc]; rfl

theorem trim_allIn (cut w : Txt) (h : allIn cut w) : trim cut w = [] := by
  unfold trim; rw [trimRight_allIn _ _ h]; rfl

/-- `noEdge` unpacked for a non-empty text -/
theorem noEdge_cons (cut : Txt) (c : Byte) (t : Txt) (h : noEdge cut (c :: t) = true) :
    inSet cut c = false ∧ ∃ t' z, c :: t = t' ++ [z] ∧ inSet cut z = false := by
  unfold noEdge at h
  simp only [Bool.and_eq_true, Bool.not_eq_true'] at h
  refine ⟨h.1, ?_⟩
  have h2 := h.2
  cases hr : (c :: t).reverse with
  | nil => simp at hr
  | cons z r =>
    rw [hr] at h2
    refine ⟨r.reverse, z, ?_, by simpa using h2⟩
    have := congrArg List.reverse hr
    simpa using this

/-- surrounding cut-set bytes are removed from a core that has none at its edges -/
theorem trim_core (cut w1 core w2 : Txt) (h1 : allIn cut w1) (h2 : allIn cut w2)
    (hne : core ≠ []) (he : noEdge cut core = true) : trim cut (w1 ++ core ++ w2) = core := by
  cases core with
  | nil => exact absurd rfl hne
  | cons c t =>
    obtain ⟨hc, t', z, hz, hzc⟩ := noEdge_cons cut c t he
    unfold trim
    have : w1 ++ (c :: t) ++ w2 = (w1 ++ t') ++ z :: w2 := by rw [hz]; simp
    rw [this, trimRight_stop _ _ _ _ hzc, trimRight_allIn _ _ h2]
    have : w1 ++ t' ++ [z] = w1 ++ (c :: t) := by rw [hz]; simp
    rw [this, trimLeft_allIn_append _ _ _ h1, trimLeft_stop _ _ _ hc]

theorem trim_core' (cut w1 core w2 : Txt) (h1 : allIn cut w1) (h2 : allIn cut w2)
    (he : noEdge cut core = true) : trim cut (w1 ++ core ++ w2) = core := by
  by_cases hne : core = []
  · subst hne
    rw [List.append_nil]
    apply trim_allIn
    intro b hb
    rcases List.mem_append.mp hb with h | h
    · exact h1 b h
    · exact h2 b h
  · exact trim_core cut w1 core w2 h1 h2 hne he

/-! ## character facts (depend on the regenerated constants) -/

theorem isWs_allIn (w : Txt) (h : isWs w = true) : allIn trimSet w := by
  intro b hb
  have := List.all_eq_true.mp h b hb
  have hb2 : b = byte 32 ∨ b = byte 9 := by simpa [inSet, blankSet] using this
  rcases hb2 with h | h <;> subst h <;> decide

theorem isWs_no (w : Txt) (h : isWs w = true) (c : Byte) (hc : inSet blankSet c = false) : c ∉ w := by
  intro hm
  have := List.all_eq_true.mp h c hm
  rw [hc] at this
  exact absurd this (by decide)

theorem eq_notin_trim : inSet trimSet eqCh = false := by decide
theorem hash_notin_trim : inSet trimSet hashCh = false := by decide
theorem nl_in_trim : inSet trimSet nlCh = true := by decide

theorem allIn_append {cut a b : Txt} (ha : allIn cut a) (hb : allIn cut b) : allIn cut (a ++ b) := by
  intro x hx
  rcases List.mem_append.mp hx with h | h
  · exact ha x h
  · exact hb x h

theorem inSet_false_iff (t : Txt) (c : Byte) : inSet t c = false ↔ c ∉ t := by
  simp [inSet]

/-! ## split at the first `=` -/

theorem takeWhile_all {α : Type} (p : α → Bool) (x : List α) (h : ∀ a ∈ x, p a = true) : x.takeWhile p = x := by
  induction x with
  | nil => rfl
  | cons a x ih =>
    have ha : p a = true := h a (by simp)
    rw [List.takeWhile_cons, ha]
    simp only [if_true]
    rw [ih (fun b hb => h b (by simp [hb]))]

theorem takeWhile_append_stop {α : Type} (p : α → Bool) (x : List α) (c : α) (y : List α)
    (h : ∀ a ∈ x, p a = true) (hc : p c = false) : (x ++ c :: y).takeWhile p = x := by
  induction x with
  | nil => simp [hc]
  | cons a x ih =>
    have ha : p a = true := h a (by simp)
    rw [List.cons_append, List.takeWhile_cons, ha]
    simp only [if_true]
    rw [ih (fun b hb => h b (by simp [hb]))]

theorem span_no (a : Txt) (c : Byte) (h : c ∉ a) :
    (a.takeWhile (fun b => b != c), a.dropWhile (fun b => b != c)) = (a, []) := by
  have hp : ∀ b ∈ a, (fun b => b != c) b = true := by
    intro b hb; simp; intro hbc; exact h (hbc ▸ hb)
  rw [takeWhile_all _ _ hp, dropWhile_all _ _ hp]

theorem span_first (a : Txt) (c : Byte) (r : Txt) (h : c ∉ a) :
    ((a ++ c :: r).takeWhile (fun b => b != c), (a ++ c :: r).dropWhile (fun b => b != c)) = (a, c :: r) := by
  have hp : ∀ b ∈ a, (fun b => b != c) b = true := by
    intro b hb; simp; intro hbc; exact h (hbc ▸ hb)
  have hc : (fun b => b != c) c = false := by simp
  rw [takeWhile_append_stop (fun b => b != c) a c r hp hc,
    dropWhile_append_stop (fun b => b != c) a c r hc, dropWhile_all _ _ hp]
  rfl

/-! ## association lists -/

theorem assocFind_set_same {α : Type} (m : List (Txt × α)) (n : Txt) (e : α) :
    assocFind (assocSet m n e) n = some e := by
  induction m with
  | nil => simp [assocSet, assocFind]
  | cons x m ih =>
    obtain ⟨k, y⟩ := x
    by_cases h : k = n
    · simp [assocSet, assocFind, h]
    · simp [assocSet, assocFind, h, ih]

theorem assocFind_set_other {α : Type} (m : List (Txt × α)) (n n' : Txt) (e : α) (h : n ≠ n') :
    assocFind (assocSet m n e) n' = assocFind m n' := by
  induction m with
  | nil => simp [assocSet, assocFind, h]
  | cons x m ih =>
    obtain ⟨k, y⟩ := x
    by_cases hk : k = n
    · subst hk; simp [assocSet, assocFind, h]
    · by_cases hk' : k = n'
      · subst hk'; simp [assocSet, assocFind, hk]
      · simp [assocSet, assocFind, hk, hk', ih]

theorem assocSet_set {α : Type} (m : List (Txt × α)) (n : Txt) (e e' : α) :
    assocSet (assocSet m n e) n e' = assocSet m n e' := by
  induction m with
  | nil => simp [assocSet]
  | cons x m ih =>
    obtain ⟨k, y⟩ := x
    by_cases h : k = n
    · simp [assocSet, h]
    · simp [assocSet, h, ih]

theorem assocSet_keys {α : Type} (m : List (Txt × α)) (n : Txt) (e : α) :
    (assocSet m n e).map Prod.fst = if n ∈ m.map Prod.fst then m.map Prod.fst else m.map Prod.fst ++ [n] := by
  induction m with
  | nil => simp [assocSet]
  | cons x m ih =>
    obtain ⟨k, y⟩ := x
    by_cases h : k = n
    · subst h; simp [assocSet]
    · have h' : ¬ n = k := fun a => h a.symm
      simp only [assocSet, h, if_false, List.map_cons, ih, List.mem_cons, h', false_or]
      split <;> simp

theorem assocSet_nodup {α : Type} (m : List (Txt × α)) (n : Txt) (e : α) (h : (m.map Prod.fst).Nodup) :
    ((assocSet m n e).map Prod.fst).Nodup := by
  rw [assocSet_keys]
  split
  · exact h
  · rename_i hn
    rw [List.nodup_append]
    refine ⟨h, by simp, ?_⟩
    intro a ha b hb
    simp at hb
    subst hb
    intro hab
    exact hn (hab ▸ ha)

theorem assocFind_some_mem {α : Type} (m : List (Txt × α)) (n : Txt) (e : α) (h : assocFind m n = some e) :
    (n, e) ∈ m := by
  induction m with
  | nil => simp [assocFind] at h
  | cons x m ih =>
    obtain ⟨k, y⟩ := x
    by_cases hk : k = n
    · simp [assocFind, hk] at h; simp [hk, h]
    · simp [assocFind, hk] at h; simp [ih h]

theorem assocFind_of_mem {α : Type} (m : List (Txt × α)) (n : Txt) (e : α) (hnd : (m.map Prod.fst).Nodup)
    (h : (n, e) ∈ m) : assocFind m n = some e := by
  induction m with
  | nil => simp at h
  | cons x m ih =>
    obtain ⟨k, y⟩ := x
    simp only [List.map_cons, List.nodup_cons] at hnd
    rcases List.mem_cons.mp h with h | h
    · simp at h; simp [assocFind, h.1, h.2]
    · have : k ≠ n := by
        intro hkn; subst hkn
        exact hnd.1 (List.mem_map.mpr ⟨(k, e), h, rfl⟩)
      simp [assocFind, this, ih hnd.2 h]

theorem assocFind_none_iff {α : Type} (m : List (Txt × α)) (n : Txt) :
    assocFind m n = none ↔ n ∉ m.map Prod.fst := by
  induction m with
  | nil => simp [assocFind]
  | cons x m ih =>
    obtain ⟨k, y⟩ := x
    by_cases hk : k = n
    · simp [assocFind, hk]
    · have : ¬ n = k := fun a => hk a.symm
      simp [assocFind, hk, ih, this]

end Tars.Conf
