import TarsModel.Proofs.TotalRead

/-!
  C05 helper lemmas, part 4: one-step unfoldings of the generated-decoder model (`decVar` per
  type constructor, the element/array/pair/member loops).  Stated with `Tars.Total.` names so
  that they do not clash with the unfoldings used by other properties.
-/
namespace Tars.Total
open Tars Consts

theorem decVar_zero (env : Env) (tag : Nat) (req : Bool) (ty : Ty) (old : Val) (r : Reader) :
    decVar env 0 tag req ty old r = (.error .fuel, r) := by
  conv => lhs; unfold decVar
  rfl

/-- the old contents of a `[]int8`/`[]uint8` target -/
def oldBytes : Val → Bytes
  | .list vs => int8Bytes vs
  | _ => []

/-- the old contents of a fixed-array target -/
def oldList : Val → List Val
  | .list vs => vs
  | _ => []

theorem decVar_vec (env : Env) (fuel tag : Nat) (req : Bool) (e : Ty) (old : Val) (r : Reader) :
    decVar env (fuel+1) tag req (.vec e) old r =
      match skipToNoCheck tag req r with
      | (.error er, r') => (.error er, r')
      | (.ok (have_, tyCur), r1) =>
        if !req && !have_ then (.ok old, r1)
        else if tyCur = tyLIST then
          match readLen r1 with
          | (.error er, r') => (.error er, r')
          | (.ok len, r2) =>
            match checkLength len r2 with
            | (.error er, r') => (.error er, r')
            | (.ok (), r3) => decElems env fuel e len.toNat [] r3
        else if tyCur = tySimpleList then
          if e = .i8 ∨ e = .u8 then
            match skipTo tyBYTE 0 true r1 with
            | (.error er, r') => (.error er, r')
            | (.ok _, r2) =>
              match readLen r2 with
              | (.error er, r') => (.error er, r')
              | (.ok len, r3) =>
                match readSlice8 (oldBytes old) len r3 with
                | (.error er, r') => (.error er, r')
                | (.ok bs, r4) => (.ok (.list (bytesToVals (e = .i8) bs)), r4)
          else (.error .mismatch, r1)
        else (.error .mismatch, r1) := by
  conv => lhs; unfold decVar
  rfl

theorem decVar_arr (env : Env) (fuel tag : Nat) (req : Bool) (n : Nat) (e : Ty) (old : Val)
    (r : Reader) :
    decVar env (fuel+1) tag req (.arr n e) old r =
      match skipToNoCheck tag req r with
      | (.error er, r') => (.error er, r')
      | (.ok (have_, tyCur), r1) =>
        if !req && !have_ then (.ok old, r1)
        else if tyCur = tyLIST then
          match readLen r1 with
          | (.error er, r') => (.error er, r')
          | (.ok len, r2) =>
            if len > (n : Int) then (.error .mismatch, r2)
            else decArr env fuel e n 0 len (oldList old) r2
        else (.error .mismatch, r1) := by
  conv => lhs; unfold decVar
  rfl

theorem decVar_map (env : Env) (fuel tag : Nat) (req : Bool) (k v : Ty) (old : Val) (r : Reader) :
    decVar env (fuel+1) tag req (.map k v) old r =
      match skipTo tyMAP tag req r with
      | (.error er, r') => (.error er, r')
      | (.ok have_, r1) =>
        if !req && !have_ then (.ok old, r1)
        else
          match readLen r1 with
          | (.error er, r') => (.error er, r')
          | (.ok len, r2) =>
            match checkLength len r2 with
            | (.error er, r') => (.error er, r')
            | (.ok (), r3) => decPairs env fuel k v len [] r3 := by
  conv => lhs; unfold decVar
  rfl

/-- the body of `ReadBlock` once the struct definition and the target are known -/
def structBody (env : Env) (fuel tag : Nat) (req : Bool) (fs : List Field) (ovs : List Val) : RM Val :=
  fun r =>
    match skipTo tyStructBegin tag req r with
    | (.error er, r') => (.error er, r')
    | (.ok have_, r1) =>
      if !have_ then
        if req then (.error .require, r1)
        else (.ok (.struct (resetDefault env fuel fs ovs)), r1)
      else
        match decMembers env fuel fs
            (resetDefault env fuel fs (resetDefault env fuel fs ovs)) r1 with
        | (.error er, r') => (.error er, r')
        | (.ok vs, r2) =>
          match skipToStructEnd r2.fuel r2 with
          | (.error er, r') => (.error er, r')
          | (.ok (), r3) => (.ok (.struct vs), r3)

theorem decVar_struct (env : Env) (fuel tag : Nat) (req : Bool) (name : String) (old : Val)
    (r : Reader) :
    decVar env (fuel+1) tag req (.struct name) old r =
      match env.find name, old with
      | some fs, .struct ovs => structBody env fuel tag req fs ovs r
      | _, _ => (.error illTyped, r) := by
  conv => lhs; unfold decVar
  rfl

/-- the types handled by `readBuf.Read<T>` -/
def isAtom : Ty → Bool
  | .vec _ | .arr _ _ | .map _ _ | .struct _ => false
  | _ => true

theorem decVar_atom (env : Env) (fuel tag : Nat) (req : Bool) (ty : Ty) (old : Val) (r : Reader)
    (h : isAtom ty = true) :
    decVar env (fuel+1) tag req ty old r = readScalar ty old tag req r := by
  conv => lhs; unfold decVar
  cases ty <;> first | rfl | simp [isAtom] at h

theorem decElems_zero (env : Env) (e : Ty) (n : Nat) (acc : List Val) (r : Reader) :
    decElems env 0 e n acc r = (.error .fuel, r) := by
  conv => lhs; unfold decElems
  rfl

theorem decElems_succ (env : Env) (fuel : Nat) (e : Ty) (n : Nat) (acc : List Val) (r : Reader) :
    decElems env (fuel+1) e n acc r =
      match n with
      | 0 => (.ok (.list acc.reverse), r)
      | n'+1 =>
        match decVar env fuel 0 true e (zeroOf env e) r with
        | (.error er, r') => (.error er, r')
        | (.ok v, r1) => decElems env fuel e n' (v :: acc) r1 := by
  conv => lhs; unfold decElems
  rfl

theorem decArr_zero (env : Env) (e : Ty) (n i : Nat) (len : Int) (cur : List Val) (r : Reader) :
    decArr env 0 e n i len cur r = (.error .fuel, r) := by
  conv => lhs; unfold decArr
  rfl

theorem decArr_succ (env : Env) (fuel : Nat) (e : Ty) (n i : Nat) (len : Int) (cur : List Val)
    (r : Reader) :
    decArr env (fuel+1) e n i len cur r =
      if (i : Int) ≥ len then (.ok (.list cur), r)
      else if i ≥ n then arrOverflow e r
      else
        match decVar env fuel 0 true e (cur.getD i (zeroOf env e)) r with
        | (.error er, r') => (.error er, r')
        | (.ok v, r1) => decArr env fuel e n (i+1) len (listSet cur i v) r1 := by
  conv => lhs; unfold decArr
  rfl

theorem decPairs_zero (env : Env) (k v : Ty) (len : Int) (acc : List (Val × Val)) (r : Reader) :
    decPairs env 0 k v len acc r = (.error .fuel, r) := by
  conv => lhs; unfold decPairs
  rfl

theorem decPairs_succ (env : Env) (fuel : Nat) (k v : Ty) (len : Int) (acc : List (Val × Val))
    (r : Reader) :
    decPairs env (fuel+1) k v len acc r =
      if len ≤ 0 then (.ok (.map acc), r)
      else
        match decVar env fuel 0 true k (zeroOf env k) r with
        | (.error er, r') => (.error er, r')
        | (.ok a, r1) =>
          match decVar env fuel 1 true v (zeroOf env v) r1 with
          | (.error er, r') => (.error er, r')
          | (.ok b, r2) => decPairs env fuel k v (len - 1) (mapInsert acc a b keyEq) r2 := by
  conv => lhs; unfold decPairs
  rfl

theorem decMembers_zero (env : Env) (fs : List Field) (olds : List Val) (r : Reader) :
    decMembers env 0 fs olds r = (.error .fuel, r) := by
  conv => lhs; unfold decMembers
  rfl

theorem decMembers_succ (env : Env) (fuel : Nat) (fs : List Field) (olds : List Val) (r : Reader) :
    decMembers env (fuel+1) fs olds r =
      match fs, olds with
      | f :: fs', o :: os =>
        match decVar env fuel f.tag f.req f.ty o r with
        | (.error er, r') => (.error er, r')
        | (.ok v, r1) =>
          match decMembers env fuel fs' os r1 with
          | (.error er, r') => (.error er, r')
          | (.ok vs, r2) => (.ok (v :: vs), r2)
      | _, _ => (.ok [], r) := by
  conv => lhs; unfold decMembers
  rfl

end Tars.Total
