import TarsModel.Proofs.CallPathClient

/-!
# The whole call: `callWith` for a well-formed call through pass-through filters
-/
namespace Tars.CallPath
open Tars Consts Filter

/-! ## the error mapping, both sides composed -/

theorem clientErr_serverErr (e : GoErr) :
    clientErr .repaired (serverErr .repaired e).1 (serverErr .repaired e).2 = some (arrives e) := by
  cases e with
  | plain m =>
    by_cases hm : m = [] <;>
      simp [serverErr, clientErr, arrives, descOr, cpPlainErrRet, cpOkRet, cpCodeLo, cpCodeHi, hm]
  | tars c m =>
    by_cases h0 : c = 0
    · subst h0
      by_cases hm : m = [] <;>
        simp [serverErr, clientErr, arrives, descOr, cpSuccessCode, cpPlainErrRet, cpOkRet, cpCodeLo,
          cpCodeHi, hm]
    · by_cases h1 : c = 1
      · subst h1
        by_cases hm : m = [] <;>
          simp [serverErr, clientErr, arrives, descOr, cpSuccessCode, cpPlainErrRet, cpOkRet, cpCodeLo,
            cpCodeHi, hm]
      · by_cases hm : m = [] <;>
          simp [serverErr, clientErr, arrives, descOr, cpSuccessCode, cpOkRet, cpCodeLo,
            cpCodeHi, hm, h0, h1]

theorem clientErr_ok : clientErr .repaired (cpDispatchRet : Nat) [] = none := by
  simp [clientErr, cpDispatchRet, cpOkRet]

theorem clientErr_ok' : clientErr .repaired 0 [] = none := by decide

theorem transparent_empty_client (α σ ε : Type) (nil : α) :
    Transparent (runClient nil ({} : Reg ε σ α)) [] [] := by
  intro d s; rw [runClient_empty]; simp

theorem transparent_empty_server (α σ ε : Type) (v : Variant) (nil : α) :
    Transparent (runServer v nil ({} : Reg ε σ α)) [] [] := by
  intro d s; rw [runServer_empty]; simp

/-- pass-through filters on the client -/
theorem transparent_client {ε σ α : Type} (nil : α) (reg : Reg ε σ α) (b a : List ε)
    (h : PassReg nil reg b a) : Transparent (runClient nil reg) b a := by
  intro d s
  rw [runClient_eq_runServer]
  cases h with
  | single f _ _ hs hf => exact runServer_single _ nil reg f _ _ hs hf d s
  | mws ms hs hm hne hp => exact runServer_mws _ nil reg ms hs hm hne hp d s
  | sides pre post hs hm hpre hpost h1 h2 =>
    exact runServer_sides_repaired nil reg pre post hs hm hpre hpost h1 h2 d s

/-- pass-through filters on the repaired server -/
theorem transparent_server {ε σ α : Type} (nil : α) (reg : Reg ε σ α) (b a : List ε)
    (h : PassReg nil reg b a) : Transparent (runServer .repaired nil reg) b a := by
  intro d s
  cases h with
  | single f _ _ hs hf => exact runServer_single _ nil reg f _ _ hs hf d s
  | mws ms hs hm hne hp => exact runServer_mws _ nil reg ms hs hm hne hp d s
  | sides pre post hs hm hpre hpost h1 h2 =>
    exact runServer_sides_repaired nil reg pre post hs hm hpre hpost h1 h2 d s

/-! ## the whole call -/

section
variable (vs : Variants) (env : Env) (rk : String → Nat) (cfg : Cfg)
  (creg : ClientReg) (sreg : ServerReg) (cb ca sb sa : List Ev)
  (iface : Iface) (f : Func) (args : List Val) (opts : List (Option StrMap))

/-- the event the implementation's run leaves in the trace -/
def implEv (env : Env) (f : Func) (args : List Val) (opts : List (Option StrMap)) : Ev :=
  Ev.impl f.name (normIns env f.sig args) ((optsMaps opts).1.getD []) ((optsMaps opts).2.getD [])

/-- what the implementation produces for this call -/
def implOut (env : Env) (f : Func) (args : List Val) (opts : List (Option StrMap)) : ImplOut :=
  f.impl (normIns env f.sig args) ((optsMaps opts).1.getD []) ((optsMaps opts).2.getD [])

/-- one-way call -/
theorem callWith_oneway
    (hcreg : Transparent (runClient DoRes.nil creg) cb ca)
    (hsreg : Transparent (runServer vs.postFilter none sreg) sb sa)
    (hcall : CallOK env rk cfg f.name f.sig true args opts)
    (hfind : iface.find f.name = some f) :
    callWith vs env cfg creg sreg iface f.name f.sig true args opts =
      (cb ++ (sb ++ [implEv env f args opts] ++ sa) ++ ca,
       .returned none (view0 env f.sig args opts)) := by
  unfold callWith
  rw [hcreg, doInvoke_ok vs env rk cfg sreg sb sa hsreg iface f true args opts hcall hfind
    (fun h => by cases h)]
  simp [proxyAfter, implEv, normIns]

/-- normal call: the trace, and the result as a function of the packet the server answers with -/
theorem callWith_normal
    (hcreg : Transparent (runClient DoRes.nil creg) cb ca)
    (hsreg : Transparent (runServer vs.postFilter none sreg) sb sa)
    (hcall : CallOK env rk cfg f.name f.sig false args opts)
    (hfind : iface.find f.name = some f)
    (himpl : ImplOK vs.zeroCode env cfg (proxyRequest env cfg f.name f.sig false args opts) f.sig
      (implOut env f args opts)) :
    callWith vs env cfg creg sreg iface f.name f.sig false args opts =
      (cb ++ (sb ++ [implEv env f args opts] ++ sa ++
          [Ev.reply (rsp2Byte (replyPacket vs.zeroCode env
            (proxyRequest env cfg f.name f.sig false args opts) f.sig (implOut env f args opts)))]) ++ ca,
       match clientErr vs.emptyDesc
          (replyPacket vs.zeroCode env (proxyRequest env cfg f.name f.sig false args opts) f.sig
            (implOut env f args opts)).iRet
          (replyPacket vs.zeroCode env (proxyRequest env cfg f.name f.sig false args opts) f.sig
            (implOut env f args opts)).sResultDesc with
       | some e => .returned (some e) (view0 env f.sig args opts)
       | none => proxyFinish vs.nilMapGuard env f.sig args opts
          (replyPacket vs.zeroCode env (proxyRequest env cfg f.name f.sig false args opts) f.sig
            (implOut env f args opts))) := by
  unfold callWith
  rw [hcreg, doInvoke_ok vs env rk cfg sreg sb sa hsreg iface f false args opts hcall hfind
    (fun _ => himpl)]
  simp only [Bool.false_eq_true, if_false, implEv, implOut, normIns]
  cases clientErr vs.emptyDesc
      (replyPacket vs.zeroCode env (proxyRequest env cfg f.name f.sig false args opts) f.sig
        (f.impl (normMembers env (inFields f.sig) (inVals f.sig.params args))
          ((optsMaps opts).1.getD []) ((optsMaps opts).2.getD []))).iRet
      (replyPacket vs.zeroCode env (proxyRequest env cfg f.name f.sig false args opts) f.sig
        (f.impl (normMembers env (inFields f.sig) (inVals f.sig.params args))
          ((optsMaps opts).1.getD []) ((optsMaps opts).2.getD []))).sResultDesc <;>
    simp [proxyAfter]

end

end Tars.CallPath
