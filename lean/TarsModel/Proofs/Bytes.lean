import TarsModel.Model.Bytes

namespace Tars

theorem beVal_be (n x : Nat) : beVal (be n x) = x % 256 ^ n := by
  induction n with
  | zero => simp [be, beVal, Nat.mod_one]
  | succ n ih =>
    simp only [be, beVal, be_length, byte_val, ih]
    rw [Nat.mod_pow_succ]
    rw [Nat.mul_comm]
    omega

theorem beVal_lt (bs : Bytes) : beVal bs < 256 ^ bs.length := by
  induction bs with
  | nil => simp [beVal]
  | cons b bs ih =>
    simp only [beVal, List.length_cons, Nat.pow_succ]
    have hb := b.isLt
    have : b.val * 256 ^ bs.length ≤ 255 * 256 ^ bs.length := Nat.mul_le_mul_right _ (by omega)
    omega

theorem be_beVal (bs : Bytes) : be bs.length (beVal bs) = bs := by
  induction bs with
  | nil => rfl
  | cons b bs ih =>
    simp only [List.length_cons, be, beVal]
    have hlt := beVal_lt bs
    have hpos : 0 < 256 ^ bs.length := Nat.pow_pos (by decide)
    congr 1
    · apply Fin.ext
      simp only [byte_val]
      rw [Nat.mul_comm, Nat.mul_add_div hpos, Nat.div_eq_of_lt hlt]
      have := b.isLt
      omega
    · have : be bs.length (b.val * 256 ^ bs.length + beVal bs) = be bs.length (beVal bs) := by
        clear ih hlt
        generalize beVal bs = y
        generalize hk : bs.length = k
        have key : ∀ (j : Nat) (c y : Nat), j ≤ k → be j (c * 256 ^ k + y) = be j y := by
          intro j
          induction j with
          | zero => intros; rfl
          | succ j ihj =>
            intro c y hj
            simp only [be]
            congr 1
            · apply Fin.ext
              simp only [byte_val]
              have hk' : 256 ^ k = 256 ^ j * (256 * 256 ^ (k - j - 1)) := by
                rw [← Nat.pow_succ', ← Nat.pow_add]; congr 1; omega
              rw [hk', ← Nat.mul_assoc, Nat.mul_comm c, Nat.mul_assoc, Nat.mul_add_div (Nat.pow_pos (by decide))]
              rw [Nat.mul_left_comm, Nat.mul_add_mod]
            · exact ihj c y (by omega)
        exact key k b.val y (Nat.le_refl _)
      rw [this, ih]

theorem toU_lt (bits : Nat) (v : Int) : toU bits v < 2 ^ bits := by
  unfold toU
  have hp : (0 : Int) < ((2 ^ bits : Nat) : Int) := by
    have : 0 < 2 ^ bits := Nat.pow_pos (by decide)
    omega
  have h1 := Int.emod_nonneg v (Int.ne_of_gt hp)
  have h2 := Int.emod_lt_of_pos v hp
  omega

/-- two's complement round trip -/
theorem toS_toU (bits : Nat) (hb : 0 < bits) (v : Int)
    (hlo : -((2 ^ (bits - 1) : Nat) : Int) ≤ v) (hhi : v < ((2 ^ (bits - 1) : Nat) : Int)) :
    toS bits (toU bits v) = v := by
  have hpow : 2 ^ bits = 2 * 2 ^ (bits - 1) := by
    cases bits with
    | zero => omega
    | succ n => simp [Nat.pow_succ, Nat.mul_comm]
  have hlt := toU_lt bits v
  unfold toS
  simp only [Nat.mod_eq_of_lt hlt]
  unfold toU
  generalize hP : 2 ^ (bits - 1) = P at *
  rw [hpow] at *
  have hPpos : 0 < P := by rw [← hP]; exact Nat.pow_pos (by decide)
  by_cases hv : 0 ≤ v
  · have : v % ((2 * P : Nat) : Int) = v := Int.emod_eq_of_lt hv (by omega)
    rw [this]
    have : (v.toNat : Int) = v := Int.toNat_of_nonneg hv
    split <;> omega
  · have : v % ((2 * P : Nat) : Int) = v + ((2 * P : Nat) : Int) := by
      rw [← Int.add_emod_right]
      exact Int.emod_eq_of_lt (by omega) (by omega)
    rw [this]
    have h3 : ((v + ((2 * P : Nat) : Int)).toNat : Int) = v + ((2 * P : Nat) : Int) :=
      Int.toNat_of_nonneg (by omega)
    split <;> omega

theorem toU_ofNat (bits : Nat) (n : Nat) (h : n < 2 ^ bits) : toU bits (n : Int) = n := by
  unfold toU
  have : ((n : Int) % ((2 ^ bits : Nat) : Int)) = (n : Int) := Int.emod_eq_of_lt (by omega) (by omega)
  rw [this]; simp

end Tars
