import TarsModel.Proofs.TotalDecEq

/-!
  C05 helper lemmas, part 5: the generated decoders never move backwards, and a successful
  required read strictly reduces what remains (the progress argument behind termination).
-/
namespace Tars
open Consts

theorem StepOK.of_lt_le {α : Type} {req : Bool} {r r1 : Reader} {x : Res α}
    (h1 : r.Lt r1) (h2 : r1.Le x.2) : StepOK req r x :=
  ⟨h1.le.trans h2, fun _ _ _ => by have := h1.remaining; have := h2.remaining; omega⟩

theorem StepOK.of_err {α : Type} {req : Bool} {r r1 : Reader} {e : Err}
    (h : r.Le r1) : StepOK req r ((.error e, r1) : Res α) := ⟨h, by simp⟩

theorem readSlice8_le (old : Bytes) (len : Int) (r : Reader) : r.Le (readSlice8 old len r).2 := by
  unfold readSlice8; split
  · exact Reader.Le.refl _
  · cases hc : checkLength len r with
    | mk res r' =>
      cases res with
      | error e => rw [(checkLength_err hc).1]; exact Reader.Le.refl _
      | ok u => rw [(checkLength_ok_inv hc).1]; exact readFull_le _ _

theorem arrOverflow_le (e : Ty) (r : Reader) : r.Le (arrOverflow e r).2 := by
  unfold arrOverflow
  split
  · cases hb : skipToNoCheck 0 true r with
    | mk res r1 =>
      obtain ⟨p1, _, _⟩ := skipToNoCheck_pos hb
      cases res with
      | error er => exact p1
      | ok p =>
        obtain ⟨hv, tyCur⟩ := p
        simp only
        split
        · cases hc : readLen r1 with
          | mk res2 r2 =>
            have hl := res_le_of (readLen_le r1) hc
            cases res2 with
            | error er => exact p1.trans hl
            | ok len => simp only; split <;> exact p1.trans hl
        · split
          · split
            · cases hc : skipTo tyBYTE 0 true r1 with
              | mk res2 r2 =>
                have hl := (skipTo_pos hc).1
                cases res2 with
                | error er => exact p1.trans hl
                | ok b =>
                  simp only
                  cases hd : readLen r2 with
                  | mk res3 r3 =>
                    have hl3 := res_le_of (readLen_le r2) hd
                    cases res3 <;> exact (p1.trans hl).trans hl3
            · exact p1
          · exact p1
  · exact Reader.Le.refl _
  · cases hc : skipTo tyMAP 0 true r with
    | mk res2 r2 =>
      have hl := (skipTo_pos hc).1
      cases res2 with
      | error er => exact hl
      | ok b =>
        simp only
        cases hd : readLen r2 with
        | mk res3 r3 =>
          have hl3 := res_le_of (readLen_le r2) hd
          cases res3 <;> exact hl.trans hl3
  · exact Reader.Le.refl _

/-- in `genReadVector`/`genReadArray`: past the `!require && !have` test the field was found -/
theorem have_true_of {req hv : Bool} (h : ¬ ((!req && !hv) = true)) (h3 : hv = false → req = false) :
    hv = true := by
  cases hv
  · have := h3 rfl; subst this; simp at h
  · rfl

/-- **Position facts for the generated decoders** (any fuel): the position never moves backwards,
    and a successful required member/element read strictly reduces what remains. -/
theorem dec_pos (env : Env) : ∀ f : Nat,
    (∀ tag req ty old (r : Reader), StepOK req r (decVar env f tag req ty old r)) ∧
    (∀ e n acc (r : Reader), r.Le (decElems env f e n acc r).2) ∧
    (∀ e n i len cur (r : Reader), r.Le (decArr env f e n i len cur r).2) ∧
    (∀ k v len acc (r : Reader), r.Le (decPairs env f k v len acc r).2) ∧
    (∀ fs olds (r : Reader), r.Le (decMembers env f fs olds r).2) := by
  intro f
  induction f with
  | zero =>
    refine ⟨?_, ?_, ?_, ?_, ?_⟩ <;> intros <;>
      simp only [Total.decVar_zero, Total.decElems_zero, Total.decArr_zero, Total.decPairs_zero,
        Total.decMembers_zero]
    · exact StepOK.of_err (Reader.Le.refl _)
    all_goals exact Reader.Le.refl _
  | succ f ih =>
    obtain ⟨ihV, ihE, ihA, ihP, ihM⟩ := ih
    refine ⟨?_, ?_, ?_, ?_, ?_⟩
    · intro tag req ty old r
      cases ty with
      | vec e =>
        rw [Total.decVar_vec]
        cases hb : skipToNoCheck tag req r with
        | mk res r1 =>
          obtain ⟨p1, p2, p3⟩ := skipToNoCheck_pos hb
          cases res with
          | error er => exact StepOK.of_err p1
          | ok p =>
            obtain ⟨hv, tyCur⟩ := p
            simp only
            split
            · rename_i hc
              refine ⟨p1, ?_⟩
              intro hr; subst hr; simp at hc
            · rename_i hc
              have hvt := have_true_of hc (by intro h; subst h; exact p3 tyCur rfl)
              subst hvt
              have hlt := p2 tyCur rfl
              split
              · cases hd : readLen r1 with
                | mk res2 r2 =>
                  have hl := res_le_of (readLen_le r1) hd
                  cases res2 with
                  | error er => exact StepOK.of_err (p1.trans hl)
                  | ok len =>
                    simp only
                    cases hc : checkLength len r2 with
                    | mk res3 r3 =>
                      cases res3 with
                      | error er =>
                        rw [(checkLength_err hc).1]; exact StepOK.of_err (p1.trans hl)
                      | ok u =>
                        rw [(checkLength_ok_inv hc).1]
                        exact StepOK.of_lt_le hlt (hl.trans (ihE _ _ _ _))
              · split
                · split
                  · cases hd : skipTo tyBYTE 0 true r1 with
                    | mk res2 r2 =>
                      have hl := (skipTo_pos hd).1
                      cases res2 with
                      | error er => exact StepOK.of_err (p1.trans hl)
                      | ok b =>
                        simp only
                        cases he : readLen r2 with
                        | mk res3 r3 =>
                          have hl3 := res_le_of (readLen_le r2) he
                          cases res3 with
                          | error er => exact StepOK.of_err ((p1.trans hl).trans hl3)
                          | ok len =>
                            simp only
                            cases hg : readSlice8 (Total.oldBytes old) len r3 with
                            | mk res4 r4 =>
                              have hl4 := res_le_of (readSlice8_le _ len r3) hg
                              cases res4 with
                              | error er => exact StepOK.of_err (((p1.trans hl).trans hl3).trans hl4)
                              | ok bs => exact StepOK.of_lt_le hlt ((hl.trans hl3).trans hl4)
                  · exact StepOK.of_err p1
                · exact StepOK.of_err p1
      | arr n e =>
        rw [Total.decVar_arr]
        cases hb : skipToNoCheck tag req r with
        | mk res r1 =>
          obtain ⟨p1, p2, p3⟩ := skipToNoCheck_pos hb
          cases res with
          | error er => exact StepOK.of_err p1
          | ok p =>
            obtain ⟨hv, tyCur⟩ := p
            simp only
            split
            · rename_i hc
              refine ⟨p1, ?_⟩
              intro hr; subst hr; simp at hc
            · rename_i hc
              have hvt := have_true_of hc (by intro h; subst h; exact p3 tyCur rfl)
              subst hvt
              have hlt := p2 tyCur rfl
              split
              · cases hd : readLen r1 with
                | mk res2 r2 =>
                  have hl := res_le_of (readLen_le r1) hd
                  cases res2 with
                  | error er => exact StepOK.of_err (p1.trans hl)
                  | ok len =>
                    simp only
                    split
                    · exact StepOK.of_err (p1.trans hl)
                    · exact StepOK.of_lt_le hlt (hl.trans (ihA _ _ _ _ _ _))
              · exact StepOK.of_err p1
      | map k v =>
        rw [Total.decVar_map]
        cases hb : skipTo tyMAP tag req r with
        | mk res r1 =>
          obtain ⟨p1, p2, p3, _⟩ := skipTo_pos hb
          cases res with
          | error er => exact StepOK.of_err p1
          | ok hv =>
            simp only
            split
            · rename_i hc
              refine ⟨p1, ?_⟩
              intro hr; subst hr; simp at hc
            · rename_i hc
              have hvt := have_true_of hc (by intro h; subst h; exact p3 rfl)
              subst hvt
              have hlt := p2 rfl
              cases hd : readLen r1 with
              | mk res2 r2 =>
                have hl := res_le_of (readLen_le r1) hd
                cases res2 with
                | error er => exact StepOK.of_err (p1.trans hl)
                | ok len =>
                  simp only
                  cases hc : checkLength len r2 with
                  | mk res3 r3 =>
                    cases res3 with
                    | error er =>
                      rw [(checkLength_err hc).1]; exact StepOK.of_err (p1.trans hl)
                    | ok u =>
                      rw [(checkLength_ok_inv hc).1]
                      exact StepOK.of_lt_le hlt (hl.trans (ihP _ _ _ _ _))
      | struct name =>
        rw [Total.decVar_struct]
        split
        · unfold Total.structBody
          cases hb : skipTo tyStructBegin tag req r with
          | mk res r1 =>
            obtain ⟨p1, p2, p3, _⟩ := skipTo_pos hb
            cases res with
            | error er => exact StepOK.of_err p1
            | ok hv =>
              simp only
              cases hv with
              | false =>
                have := p3 rfl
                subst this
                simp only [Bool.not_false, if_true]
                exact ⟨p1, by simp⟩
              | true =>
                have hlt := p2 rfl
                simp only [Bool.not_true]
                rw [if_neg (by simp)]
                rename_i fs ovs _ _
                cases hd : decMembers env f fs (resetDefault env f fs (resetDefault env f fs ovs)) r1 with
                | mk res2 r2 =>
                  have hl := res_le_of (ihM _ _ r1) hd
                  cases res2 with
                  | error er => exact StepOK.of_err (p1.trans hl)
                  | ok vs =>
                    simp only
                    cases he : skipToStructEnd r2.fuel r2 with
                    | mk res3 r3 =>
                      have hl3 := res_le_of ((skip_family_le _).2.2 r2) he
                      cases res3 with
                      | error er => exact StepOK.of_err ((p1.trans hl).trans hl3)
                      | ok u => exact StepOK.of_lt_le hlt (hl.trans hl3)
        · exact StepOK.of_err (Reader.Le.refl _)
      | bool | i8 | u8 | i16 | u16 | i32 | u32 | i64 | f32 | f64 | str | enum =>
        rw [Total.decVar_atom _ _ _ _ _ _ _ rfl]
        exact (readScalar_spec _ old tag req r).1
    · intro e n acc r
      rw [Total.decElems_succ]
      cases n with
      | zero => exact Reader.Le.refl _
      | succ n' =>
        simp only
        cases hb : decVar env f 0 true e (zeroOf env e) r with
        | mk res r1 =>
          have hl := res_le_of (ihV 0 true e (zeroOf env e) r).1 hb
          cases res with
          | error er => exact hl
          | ok v => exact hl.trans (ihE _ _ _ _)
    · intro e n i len cur r
      rw [Total.decArr_succ]
      split
      · exact Reader.Le.refl _
      · split
        · exact arrOverflow_le e r
        · cases hb : decVar env f 0 true e (cur.getD i (zeroOf env e)) r with
          | mk res r1 =>
            have hl := res_le_of (ihV 0 true e _ r).1 hb
            cases res with
            | error er => exact hl
            | ok v => exact hl.trans (ihA _ _ _ _ _ _)
    · intro k v len acc r
      rw [Total.decPairs_succ]
      split
      · exact Reader.Le.refl _
      · cases hb : decVar env f 0 true k (zeroOf env k) r with
        | mk res r1 =>
          have hl := res_le_of (ihV 0 true k _ r).1 hb
          cases res with
          | error er => exact hl
          | ok a =>
            simp only
            cases hc : decVar env f 1 true v (zeroOf env v) r1 with
            | mk res2 r2 =>
              have hl2 := res_le_of (ihV 1 true v _ r1).1 hc
              cases res2 with
              | error er => exact hl.trans hl2
              | ok b => exact (hl.trans hl2).trans (ihP _ _ _ _ _)
    · intro fs olds r
      rw [Total.decMembers_succ]
      split
      · rename_i fld fs' o os
        cases hb : decVar env f fld.tag fld.req fld.ty o r with
        | mk res r1 =>
          have hl := res_le_of (ihV _ _ _ _ r).1 hb
          cases res with
          | error er => exact hl
          | ok v =>
            simp only
            cases hc : decMembers env f fs' os r1 with
            | mk res2 r2 =>
              have hl2 := res_le_of (ihM _ _ r1) hc
              cases res2 with
              | error er => exact hl.trans hl2
              | ok vs => exact hl.trans hl2
      · exact Reader.Le.refl _

end Tars
