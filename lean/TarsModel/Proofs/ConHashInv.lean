/-
  Ring invariants for C14 and the lookup characterisation derived from them.

  * `InvK`   (unconditional, every history): `sortedKeys` is sorted and has exactly the keys of
             `hashRing`.
  * `OwnOK`  (histories over a universe without collisions): `hashRing[p] = e` iff `e` is a current
             member and `p` is one of its points.
  * `mapValues` after a history is the specification-level set `setAfter`.
-/
import TarsModel.Proofs.ConHash

namespace Tars.ConHash

variable {H : Type} [DecidableEq H]

/-! ## What the operations do to the fields -/

theorem addLocked_some {pts : H → Nat → List Nat} {r r' : Ring H} {ep : Ep H}
    (h : addLocked pts r ep = some r') :
    ep.host ∉ r.mapValues ∧ r'.cfg = r.cfg ∧ r'.mapValues = r.mapValues ++ [ep.host] ∧
    r'.hashRing = (ptsOf r.cfg pts ep).foldl (fun m p => mset m p ep) r.hashRing ∧
    r'.sortedKeys = r.sortedKeys ++ (ptsOf r.cfg pts ep).toArray := by
  unfold addLocked at h
  by_cases hm : ep.host ∈ r.mapValues
  · simp [hm] at h
  · simp only [hm, ↓reduceIte, Option.some.injEq] at h
    subst h
    exact ⟨hm, rfl, rfl, rfl, rfl⟩

theorem addLocked_none {pts : H → Nat → List Nat} {r : Ring H} {ep : Ep H} :
    addLocked pts r ep = none ↔ ep.host ∈ r.mapValues := by
  unfold addLocked
  by_cases hm : ep.host ∈ r.mapValues <;> simp [hm]

theorem remove_some {pts : H → Nat → List Nat} {r r' : Ring H} {ep : Ep H}
    (h : remove pts r ep = some r') :
    ep.host ∈ r.mapValues ∧ r'.cfg = r.cfg ∧ r'.mapValues = r.mapValues.filter (fun h => h ≠ ep.host) ∧
    r'.hashRing = (ptsOf r.cfg pts ep).foldl mdel r.hashRing ∧
    r'.sortedKeys = sortKeys (mkeys r'.hashRing).toArray := by
  unfold remove at h
  by_cases hm : ep.host ∈ r.mapValues
  · simp only [hm, ↓reduceIte, Option.some.injEq] at h
    subst h
    exact ⟨hm, rfl, rfl, rfl, rfl⟩
  · simp [hm] at h

theorem remove_none {pts : H → Nat → List Nat} {r : Ring H} {ep : Ep H} :
    remove pts r ep = none ↔ ep.host ∉ r.mapValues := by
  unfold remove
  by_cases hm : ep.host ∈ r.mapValues <;> simp [hm]

theorem add_some {pts : H → Nat → List Nat} {r r' : Ring H} {ep : Ep H}
    (h : add pts r ep = some r') :
    ∃ r1, addLocked pts r ep = some r1 ∧ r'.cfg = r1.cfg ∧ r'.mapValues = r1.mapValues ∧
      r'.hashRing = r1.hashRing ∧ r'.sortedKeys = sortKeys r1.sortedKeys := by
  unfold add at h
  cases h1 : addLocked pts r ep with
  | none => simp [h1] at h
  | some r1 =>
    simp only [h1, Option.some.injEq] at h
    subst h
    exact ⟨r1, rfl, rfl, rfl, rfl, rfl⟩

theorem add_none {pts : H → Nat → List Nat} {r : Ring H} {ep : Ep H} :
    add pts r ep = none ↔ ep.host ∈ r.mapValues := by
  unfold add
  cases h1 : addLocked pts r ep with
  | none => simpa using addLocked_none.1 h1
  | some r1 =>
    simp only [reduceCtorEq, false_iff]
    exact (addLocked_some h1).1

/-- the loop body of `Refresh` -/
def refreshBody (pts : H → Nat → List Nat) (r : Ring H) (ep : Ep H) : Ring H :=
  match addLocked pts r ep with | some r' => r' | none => r

theorem refresh_eq (pts : H → Nat → List Nat) (r : Ring H) (eps : List (Ep H)) :
    refresh pts r eps =
      { (eps.foldl (refreshBody pts) { r with mapValues := [], hashRing := [], sortedKeys := #[] }) with
        sortedKeys := sortKeys (eps.foldl (refreshBody pts) { r with mapValues := [], hashRing := [], sortedKeys := #[] }).sortedKeys } := by
  rfl

/-! ## `cfg` never changes -/

theorem cfg_refreshBody (pts : H → Nat → List Nat) (r : Ring H) (ep : Ep H) : (refreshBody pts r ep).cfg = r.cfg := by
  unfold refreshBody
  cases h : addLocked pts r ep with
  | none => rfl
  | some r' => exact (addLocked_some h).2.1

theorem cfg_foldl_refreshBody (pts : H → Nat → List Nat) (eps : List (Ep H)) (r : Ring H) :
    (eps.foldl (refreshBody pts) r).cfg = r.cfg := by
  induction eps generalizing r with
  | nil => rfl
  | cons e eps ih => simp only [List.foldl_cons, ih, cfg_refreshBody]

theorem cfg_step (pts : H → Nat → List Nat) (r : Ring H) (op : Op H) : (step pts r op).cfg = r.cfg := by
  cases op with
  | refresh eps => simp only [step, refresh_eq, cfg_foldl_refreshBody]
  | add ep =>
    simp only [step]
    cases h : add pts r ep with
    | none => rfl
    | some r' =>
      obtain ⟨r1, h1, hc, _⟩ := add_some h
      simp only [Option.getD_some, hc, (addLocked_some h1).2.1]
  | remove ep =>
    simp only [step]
    cases h : remove pts r ep with
    | none => rfl
    | some r' => simp only [Option.getD_some, (remove_some h).2.1]

theorem cfg_run (pts : H → Nat → List Nat) (ops : List (Op H)) (r : Ring H) : (run pts r ops).cfg = r.cfg := by
  induction ops generalizing r with
  | nil => rfl
  | cons op ops ih => simp only [run, List.foldl_cons] at *; rw [ih, cfg_step]

/-! ## `mapValues` is the specification-level set -/

theorem mapValues_refreshBody (pts : H → Nat → List Nat) (r : Ring H) (ep : Ep H) :
    (refreshBody pts r ep).mapValues = if ep.host ∈ r.mapValues then r.mapValues else r.mapValues ++ [ep.host] := by
  unfold refreshBody
  cases h : addLocked pts r ep with
  | none => simp [addLocked_none.1 h]
  | some r' =>
    obtain ⟨h1, _, h3, _⟩ := addLocked_some h
    simp [h1, h3]

theorem mapValues_foldl_refreshBody (pts : H → Nat → List Nat) (eps : List (Ep H)) (r : Ring H) :
    (eps.foldl (refreshBody pts) r).mapValues =
      eps.foldl (fun s e => if e.host ∈ s then s else s ++ [e.host]) r.mapValues := by
  induction eps generalizing r with
  | nil => rfl
  | cons e eps ih => simp only [List.foldl_cons, ih, mapValues_refreshBody]

theorem mapValues_step (pts : H → Nat → List Nat) (r : Ring H) (op : Op H) :
    (step pts r op).mapValues = setStep r.mapValues op := by
  cases op with
  | refresh eps => simp only [step, refresh_eq, mapValues_foldl_refreshBody, setStep]
  | add ep =>
    simp only [step, setStep]
    cases h : add pts r ep with
    | none => simp [add_none.1 h]
    | some r' =>
      obtain ⟨r1, h1, _, hm, _⟩ := add_some h
      obtain ⟨h2, _, h3, _⟩ := addLocked_some h1
      simp [hm, h3, h2]
  | remove ep =>
    simp only [step, setStep]
    cases h : remove pts r ep with
    | none =>
      have hn := remove_none.1 h
      simp only [Option.getD_none]
      symm
      apply List.filter_eq_self.2
      intro a ha
      simp only [ne_eq, decide_not, Bool.not_eq_eq_eq_not, Bool.not_true, decide_eq_false_iff_not]
      intro heq; subst heq; exact hn ha
    | some r' => simp [(remove_some h).2.2.1]

theorem mapValues_run (pts : H → Nat → List Nat) (ops : List (Op H)) (r : Ring H) :
    (run pts r ops).mapValues = setAfter r.mapValues ops := by
  induction ops generalizing r with
  | nil => rfl
  | cons op ops ih =>
    simp only [run, setAfter, List.foldl_cons] at *
    rw [ih, mapValues_step]

/-! ## `InvK`: sorted, and same keys as `hashRing` — every history -/

def KeysOK (r : Ring H) : Prop := ∀ p, p ∈ r.sortedKeys.toList ↔ (mget r.hashRing p).isSome = true

def InvK (r : Ring H) : Prop := SortedArr r.sortedKeys ∧ KeysOK r

omit [DecidableEq H] in
theorem InvK_new (ew : Bool) : InvK (Ring.new ew : Ring H) := by
  refine ⟨?_, ?_⟩
  · intro x y hx; simp [Ring.new] at hx
  · intro p; simp [Ring.new, mget]

theorem KeysOK_addLocked {pts : H → Nat → List Nat} {r r' : Ring H} {ep : Ep H}
    (hk : KeysOK r) (h : addLocked pts r ep = some r') : KeysOK r' := by
  obtain ⟨_, _, _, hh, hs⟩ := addLocked_some h
  intro p
  rw [hh, hs, mget_foldl_mset]
  simp only [Array.toList_append, List.mem_append]
  by_cases hp : p ∈ ptsOf r.cfg pts ep
  · simp [hp]
  · simp [hp, hk p]

theorem KeysOK_refreshBody {pts : H → Nat → List Nat} {r : Ring H} (ep : Ep H) (hk : KeysOK r) :
    KeysOK (refreshBody pts r ep) := by
  unfold refreshBody
  cases h : addLocked pts r ep with
  | none => exact hk
  | some r' => exact KeysOK_addLocked hk h

theorem KeysOK_foldl_refreshBody {pts : H → Nat → List Nat} (eps : List (Ep H)) {r : Ring H} (hk : KeysOK r) :
    KeysOK (eps.foldl (refreshBody pts) r) := by
  induction eps generalizing r with
  | nil => exact hk
  | cons e eps ih => exact ih (KeysOK_refreshBody e hk)

omit [DecidableEq H] in
/-- re-sorting keeps the key set and establishes sortedness -/
theorem InvK_sort {r : Ring H} (hk : KeysOK r) : InvK { r with sortedKeys := sortKeys r.sortedKeys } := by
  refine ⟨sortedArr_sortKeys _, ?_⟩
  intro p
  show p ∈ (sortKeys r.sortedKeys).toList ↔ _
  rw [mem_sortKeys]; exact hk p

theorem InvK_refresh (pts : H → Nat → List Nat) (r : Ring H) (eps : List (Ep H)) : InvK (refresh pts r eps) := by
  rw [refresh_eq]
  apply InvK_sort
  apply KeysOK_foldl_refreshBody
  intro p; simp [mget]

theorem InvK_step (pts : H → Nat → List Nat) {r : Ring H} (hi : InvK r) (op : Op H) : InvK (step pts r op) := by
  cases op with
  | refresh eps => exact InvK_refresh pts r eps
  | add ep =>
    simp only [step]
    cases h : add pts r ep with
    | none => exact hi
    | some r' =>
      obtain ⟨r1, h1, _, _, hh, hs⟩ := add_some h
      have hk1 := KeysOK_addLocked hi.2 h1
      have := InvK_sort hk1
      refine ⟨?_, ?_⟩
      · simp only [Option.getD_some, hs]; exact this.1
      · intro p
        simp only [Option.getD_some, hs, hh]
        exact this.2 p
  | remove ep =>
    simp only [step]
    cases h : remove pts r ep with
    | none => exact hi
    | some r' =>
      obtain ⟨_, _, _, _, hs⟩ := remove_some h
      simp only [Option.getD_some]
      refine ⟨by rw [hs]; exact sortedArr_sortKeys _, ?_⟩
      intro p
      rw [hs, mem_sortKeys]
      exact mem_mkeys _ _

theorem InvK_run (pts : H → Nat → List Nat) (ops : List (Op H)) {r : Ring H} (hi : InvK r) : InvK (run pts r ops) := by
  induction ops generalizing r with
  | nil => exact hi
  | cons op ops ih => simp only [run, List.foldl_cons] at *; exact ih (InvK_step pts hi op)

/-! ## `OwnOK`: under `NoCollision`, `hashRing` is exactly the ownership relation of the current set -/

def OwnOK (cfg : Cfg) (pts : H → Nat → List Nat) (U : List (Ep H)) (r : Ring H) : Prop :=
  r.cfg = cfg ∧ ∀ p e, mget r.hashRing p = some e ↔ (e ∈ U ∧ e.host ∈ r.mapValues ∧ p ∈ ptsOf cfg pts e)

theorem OwnOK_addLocked {cfg : Cfg} {pts : H → Nat → List Nat} {U : List (Ep H)} {r r' : Ring H} {ep : Ep H}
    (hU : HostsInj U) (hnc : NoCollision cfg pts U) (hep : ep ∈ U)
    (ho : OwnOK cfg pts U r) (h : addLocked pts r ep = some r') : OwnOK cfg pts U r' := by
  obtain ⟨hnot, hc, hm, hh, _⟩ := addLocked_some h
  obtain ⟨hcfg, hown⟩ := ho
  refine ⟨hc.trans hcfg, ?_⟩
  intro p e
  rw [hh, hm, mget_foldl_mset, hcfg]
  simp only [List.mem_append, List.mem_singleton]
  by_cases hp : p ∈ ptsOf cfg pts ep
  · simp only [hp, ↓reduceIte, Option.some.injEq]
    constructor
    · intro he; subst he; exact ⟨hep, Or.inr rfl, hp⟩
    · rintro ⟨heU, hhost, hpe⟩
      by_cases hhe : e.host = ep.host
      · exact (hU e heU ep hep hhe).symm
      · exact absurd hp (hnc e heU ep hep hhe p hpe)
  · simp only [hp, ↓reduceIte, hown p e]
    constructor
    · rintro ⟨a, b, c⟩; exact ⟨a, Or.inl b, c⟩
    · rintro ⟨a, b, c⟩
      rcases b with b | b
      · exact ⟨a, b, c⟩
      · have := hU e a ep hep b
        subst this; exact absurd c hp

theorem OwnOK_refreshBody {cfg : Cfg} {pts : H → Nat → List Nat} {U : List (Ep H)} {r : Ring H} {ep : Ep H}
    (hU : HostsInj U) (hnc : NoCollision cfg pts U) (hep : ep ∈ U)
    (ho : OwnOK cfg pts U r) : OwnOK cfg pts U (refreshBody pts r ep) := by
  unfold refreshBody
  cases h : addLocked pts r ep with
  | none => exact ho
  | some r' => exact OwnOK_addLocked hU hnc hep ho h

theorem OwnOK_foldl_refreshBody {cfg : Cfg} {pts : H → Nat → List Nat} {U : List (Ep H)}
    (hU : HostsInj U) (hnc : NoCollision cfg pts U) (eps : List (Ep H)) (heps : ∀ e, e ∈ eps → e ∈ U)
    {r : Ring H} (ho : OwnOK cfg pts U r) : OwnOK cfg pts U (eps.foldl (refreshBody pts) r) := by
  induction eps generalizing r with
  | nil => exact ho
  | cons e eps ih =>
    simp only [List.foldl_cons]
    exact ih (fun x hx => heps x (List.mem_cons_of_mem _ hx))
      (OwnOK_refreshBody hU hnc (heps e (List.mem_cons_self)) ho)

theorem OwnOK_remove {cfg : Cfg} {pts : H → Nat → List Nat} {U : List (Ep H)} {r r' : Ring H} {ep : Ep H}
    (hU : HostsInj U) (hnc : NoCollision cfg pts U) (hep : ep ∈ U)
    (ho : OwnOK cfg pts U r) (h : remove pts r ep = some r') : OwnOK cfg pts U r' := by
  obtain ⟨_, hc, hm, hh, _⟩ := remove_some h
  obtain ⟨hcfg, hown⟩ := ho
  refine ⟨hc.trans hcfg, ?_⟩
  intro p e
  rw [hh, hm, mget_foldl_mdel, hcfg]
  simp only [List.mem_filter, ne_eq, decide_not, Bool.not_eq_eq_eq_not, Bool.not_true, decide_eq_false_iff_not]
  by_cases hp : p ∈ ptsOf cfg pts ep
  · simp only [hp, ↓reduceIte, reduceCtorEq, false_iff]
    rintro ⟨heU, ⟨_, hne⟩, hpe⟩
    exact hnc e heU ep hep hne p hpe hp
  · simp only [hp, ↓reduceIte, hown p e]
    constructor
    · rintro ⟨a, b, c⟩
      refine ⟨a, ⟨b, ?_⟩, c⟩
      intro heq
      have := hU e a ep hep heq
      subst this; exact hp c
    · rintro ⟨a, ⟨b, _⟩, c⟩; exact ⟨a, b, c⟩

theorem OwnOK_step {cfg : Cfg} {pts : H → Nat → List Nat} {U : List (Ep H)} {r : Ring H}
    (hU : HostsInj U) (hnc : NoCollision cfg pts U) (op : Op H) (hop : ∀ e, e ∈ op.eps → e ∈ U)
    (ho : OwnOK cfg pts U r) : OwnOK cfg pts U (step pts r op) := by
  cases op with
  | refresh eps =>
    simp only [step, refresh_eq]
    have h0 : OwnOK cfg pts U ({ r with mapValues := [], hashRing := [], sortedKeys := #[] } : Ring H) := by
      refine ⟨ho.1, ?_⟩
      intro p e; simp [mget]
    have := OwnOK_foldl_refreshBody hU hnc eps hop h0
    exact ⟨this.1, this.2⟩
  | add ep =>
    simp only [step]
    cases h : add pts r ep with
    | none => exact ho
    | some r' =>
      obtain ⟨r1, h1, hc, hm, hh, _⟩ := add_some h
      have := OwnOK_addLocked hU hnc (hop ep (by simp [Op.eps])) ho h1
      simp only [Option.getD_some]
      refine ⟨hc.trans this.1, ?_⟩
      intro p e; rw [hh, hm]; exact this.2 p e
  | remove ep =>
    simp only [step]
    cases h : remove pts r ep with
    | none => exact ho
    | some r' => exact OwnOK_remove hU hnc (hop ep (by simp [Op.eps])) ho h

theorem OwnOK_run {cfg : Cfg} {pts : H → Nat → List Nat} {U : List (Ep H)}
    (hU : HostsInj U) (hnc : NoCollision cfg pts U) (ops : List (Op H)) (hops : OverU U ops)
    {r : Ring H} (ho : OwnOK cfg pts U r) : OwnOK cfg pts U (run pts r ops) := by
  induction ops generalizing r with
  | nil => exact ho
  | cons op ops ih =>
    simp only [run, List.foldl_cons] at *
    exact ih (fun o ho' => hops o (List.mem_cons_of_mem _ ho'))
      (OwnOK_step hU hnc op (hops op (List.mem_cons_self)) ho)

omit [DecidableEq H] in
theorem OwnOK_new (ew : Bool) (pts : H → Nat → List Nat) (U : List (Ep H)) :
    OwnOK (Ring.new ew : Ring H).cfg pts U (Ring.new ew) := by
  refine ⟨rfl, ?_⟩
  intro p e; simp [Ring.new, mget]

/-! ## Lookup characterisation -/

omit [DecidableEq H] in
theorem points_iff {cfg : Cfg} {pts : H → Nat → List Nat} {U : List (Ep H)} {r : Ring H}
    (hK : InvK r) (hO : OwnOK cfg pts U r) (p : Nat) :
    p ∈ r.sortedKeys.toList ↔ IsPoint cfg pts U r.mapValues p := by
  rw [hK.2 p]
  constructor
  · intro h
    obtain ⟨e, he⟩ := Option.isSome_iff_exists.1 h
    exact ⟨e, (hO.2 p e).1 he⟩
  · rintro ⟨e, he⟩
    rw [(hO.2 p e).2 he]; rfl

omit [DecidableEq H] in
/-- the endpoint prescribed by the property is the one `FindInt32` returns -/
theorem findInt32_owner {cfg : Cfg} {pts : H → Nat → List Nat} {U : List (Ep H)} {r : Ring H}
    (hK : InvK r) (hO : OwnOK cfg pts U r) (k : Nat) (e : Ep H)
    (h : Owner cfg pts U r.mapValues k e) : findInt32 r k = .ep e := by
  obtain ⟨p, hs, heU, hhost, hpe⟩ := h
  have hs' : IsSucc (fun q => q ∈ r.sortedKeys.toList) k p :=
    IsSucc.congr (fun q => (points_iff hK hO q).symm) hs
  rw [findInt32_of_succ r hK.1 k p hs', (hO.2 p e).2 ⟨heU, hhost, hpe⟩]

omit [DecidableEq H] in
theorem findInt32_none {cfg : Cfg} {pts : H → Nat → List Nat} {U : List (Ep H)} {r : Ring H}
    (hK : InvK r) (hO : OwnOK cfg pts U r) (k : Nat)
    (h : ∀ p, ¬ IsPoint cfg pts U r.mapValues p) : findInt32 r k = .notFound := by
  apply findInt32_empty
  by_cases h0 : r.sortedKeys.size = 0
  · exact h0
  · exfalso
    have hlt : 0 < r.sortedKeys.size := by omega
    have hmem : r.sortedKeys[0] ∈ r.sortedKeys.toList := by simp [Array.mem_toList_iff]
    exact h _ ((points_iff hK hO _).1 hmem)

omit [DecidableEq H] in
/-- if the set has a ring point at all, every key has an owner -/
theorem owner_exists {cfg : Cfg} {pts : H → Nat → List Nat} {U : List (Ep H)} {r : Ring H}
    (hK : InvK r) (hO : OwnOK cfg pts U r) (k : Nat)
    (h : ∃ p, IsPoint cfg pts U r.mapValues p) : ∃ e, Owner cfg pts U r.mapValues k e := by
  obtain ⟨p0, hp0⟩ := h
  have hne : r.sortedKeys.toList ≠ [] := by
    intro hnil
    have := (points_iff hK hO p0).2 hp0
    simp [hnil] at this
  obtain ⟨p, hp⟩ := exists_succ r.sortedKeys.toList hne k
  have hp' : IsSucc (IsPoint cfg pts U r.mapValues) k p := IsSucc.congr (fun q => points_iff hK hO q) hp
  obtain ⟨e, heU, hhost, hpe⟩ := hp'.1
  exact ⟨e, p, hp', heU, hhost, hpe⟩

omit [DecidableEq H] in
theorem IsPoint.sameSet {cfg : Cfg} {pts : H → Nat → List Nat} {U : List (Ep H)} {S1 S2 : List H}
    (hs : SameSet S1 S2) (p : Nat) : IsPoint cfg pts U S1 p ↔ IsPoint cfg pts U S2 p := by
  constructor
  · rintro ⟨e, a, b, c⟩; exact ⟨e, a, (hs _).1 b, c⟩
  · rintro ⟨e, a, b, c⟩; exact ⟨e, a, (hs _).2 b, c⟩

omit [DecidableEq H] in
theorem Owner.sameSet {cfg : Cfg} {pts : H → Nat → List Nat} {U : List (Ep H)} {S1 S2 : List H}
    (hs : SameSet S1 S2) {k : Nat} {e : Ep H} (h : Owner cfg pts U S1 k e) : Owner cfg pts U S2 k e := by
  obtain ⟨p, hsucc, a, b, c⟩ := h
  exact ⟨p, IsSucc.congr (IsPoint.sameSet hs) hsucc, a, (hs _).1 b, c⟩

/-! ## Purity, minimal disruption (ring level) -/

omit [DecidableEq H] in
/-- two rings over the same set of hosts answer every key alike -/
theorem pure_core {cfg : Cfg} {pts : H → Nat → List Nat} {U : List (Ep H)} {r1 r2 : Ring H}
    (hK1 : InvK r1) (hO1 : OwnOK cfg pts U r1) (hK2 : InvK r2) (hO2 : OwnOK cfg pts U r2)
    (hs : SameSet r1.mapValues r2.mapValues) (k : Nat) : findInt32 r1 k = findInt32 r2 k := by
  by_cases hp : ∃ p, IsPoint cfg pts U r1.mapValues p
  · obtain ⟨e, he⟩ := owner_exists hK1 hO1 k hp
    rw [findInt32_owner hK1 hO1 k e he, findInt32_owner hK2 hO2 k e (Owner.sameSet hs he)]
  · have h1 : ∀ p, ¬ IsPoint cfg pts U r1.mapValues p := fun p h => hp ⟨p, h⟩
    have h2 : ∀ p, ¬ IsPoint cfg pts U r2.mapValues p := fun p h => hp ⟨p, (IsPoint.sameSet hs p).2 h⟩
    rw [findInt32_none hK1 hO1 k h1, findInt32_none hK2 hO2 k h2]

omit [DecidableEq H] in
/-- if `FindInt32` answers `e`, then `e` is the prescribed owner -/
theorem owner_of_findInt32 {cfg : Cfg} {pts : H → Nat → List Nat} {U : List (Ep H)} {r : Ring H}
    (hK : InvK r) (hO : OwnOK cfg pts U r) (k : Nat) (e : Ep H) (h : findInt32 r k = .ep e) :
    Owner cfg pts U r.mapValues k e := by
  by_cases hp : ∃ p, IsPoint cfg pts U r.mapValues p
  · obtain ⟨e', he'⟩ := owner_exists hK hO k hp
    have := findInt32_owner hK hO k e' he'
    rw [h] at this
    cases this; exact he'
  · have := findInt32_none hK hO k (fun p hp' => hp ⟨p, hp'⟩)
    rw [h] at this; cases this

omit [DecidableEq H] in
/-- removing hosts other than the owner of `k` leaves `k` where it was -/
theorem shrink_core {cfg : Cfg} {pts : H → Nat → List Nat} {U : List (Ep H)} {r r' : Ring H}
    (hK : InvK r) (hO : OwnOK cfg pts U r) (hK' : InvK r') (hO' : OwnOK cfg pts U r')
    (hsub : ∀ h, h ∈ r'.mapValues → h ∈ r.mapValues)
    (k : Nat) (e : Ep H) (h : findInt32 r k = .ep e) (hkeep : e.host ∈ r'.mapValues) :
    findInt32 r' k = .ep e := by
  obtain ⟨p, hs, heU, _, hpe⟩ := owner_of_findInt32 hK hO k e h
  apply findInt32_owner hK' hO' k e
  refine ⟨p, IsSucc.mono ?_ hs ⟨e, heU, hkeep, hpe⟩, heU, hkeep, hpe⟩
  rintro q ⟨e', a, b, c⟩
  exact ⟨e', a, hsub _ b, c⟩

omit [DecidableEq H] in
/-- adding one host `ep` moves a key only onto `ep` -/
theorem grow_core {cfg : Cfg} {pts : H → Nat → List Nat} {U : List (Ep H)} {r r' : Ring H}
    (hU : HostsInj U)
    (hK : InvK r) (hO : OwnOK cfg pts U r) (hK' : InvK r') (hO' : OwnOK cfg pts U r')
    (ep : Ep H) (hep : ep ∈ U)
    (hsub : ∀ h, h ∈ r.mapValues → h ∈ r'.mapValues)
    (hnew : ∀ h, h ∈ r'.mapValues → h ∈ r.mapValues ∨ h = ep.host)
    (k : Nat) : findInt32 r' k = findInt32 r k ∨ findInt32 r' k = .ep ep := by
  by_cases hp : ∃ p, IsPoint cfg pts U r'.mapValues p
  · obtain ⟨e, he⟩ := owner_exists hK' hO' k hp
    have hf' := findInt32_owner hK' hO' k e he
    obtain ⟨p, hs, heU, hhost, hpe⟩ := he
    rcases hnew _ hhost with hold | hhe
    · left
      rw [hf']
      symm
      apply findInt32_owner hK hO k e
      refine ⟨p, IsSucc.mono ?_ hs ⟨e, heU, hold, hpe⟩, heU, hold, hpe⟩
      rintro q ⟨e', a, b, c⟩
      exact ⟨e', a, hsub _ b, c⟩
    · right
      rw [hf', hU e heU ep hep hhe]
  · left
    have h1 : ∀ p, ¬ IsPoint cfg pts U r'.mapValues p := fun p h => hp ⟨p, h⟩
    have h2 : ∀ p, ¬ IsPoint cfg pts U r.mapValues p := by
      rintro p ⟨e, a, b, c⟩
      exact hp ⟨p, e, a, hsub _ b, c⟩
    rw [findInt32_none hK' hO' k h1, findInt32_none hK hO k h2]

omit [DecidableEq H] in
/-- every history: `FindInt32` never hands out the zero endpoint, and misses only on an empty ring -/
theorem findInt32_total {r : Ring H} (hK : InvK r) (k : Nat) :
    (r.sortedKeys.size = 0 ∧ findInt32 r k = .notFound) ∨
    (∃ p e, p ∈ r.sortedKeys.toList ∧ mget r.hashRing p = some e ∧ findInt32 r k = .ep e) := by
  by_cases h0 : r.sortedKeys.size = 0
  · exact Or.inl ⟨h0, findInt32_empty r k h0⟩
  · right
    have hne : r.sortedKeys.toList ≠ [] := by
      intro hnil
      apply h0
      have := congrArg List.length hnil
      simpa using this
    obtain ⟨p, hp⟩ := exists_succ r.sortedKeys.toList hne k
    have hsome := (hK.2 p).1 hp.1
    obtain ⟨e, he⟩ := Option.isSome_iff_exists.1 hsome
    exact ⟨p, e, hp.1, he, by rw [findInt32_of_succ r hK.1 k p hp, he]⟩

/-- the set installed by `Refresh(eps)` is the set of listed hosts -/
theorem mem_refresh_set (eps : List (Ep H)) (s0 : List H) (h : H) :
    h ∈ eps.foldl (fun s e => if e.host ∈ s then s else s ++ [e.host]) s0 ↔ (h ∈ s0 ∨ h ∈ eps.map (·.host)) := by
  induction eps generalizing s0 with
  | nil => simp
  | cons e eps ih =>
    simp only [List.foldl_cons, ih, List.map_cons, List.mem_cons]
    by_cases he : e.host ∈ s0
    · simp only [he, ↓reduceIte]
      constructor
      · rintro (a | a)
        · exact Or.inl a
        · exact Or.inr (Or.inr a)
      · rintro (a | a | a)
        · exact Or.inl a
        · exact Or.inl (a ▸ he)
        · exact Or.inr a
    · simp only [he, ↓reduceIte, List.mem_append, List.mem_singleton]
      constructor
      · rintro ((a | a) | a)
        · exact Or.inl a
        · exact Or.inr (Or.inl a)
        · exact Or.inr (Or.inr a)
      · rintro (a | a | a)
        · exact Or.inl (Or.inl a)
        · exact Or.inl (Or.inr a)
        · exact Or.inr a

/-! ## Collisions -/

omit [DecidableEq H] in
/-- looking up a ring point itself reads `hashRing` at that point (needs only `InvK`) -/
theorem findInt32_at_point {r : Ring H} (hK : InvK r) {p : Nat} {e : Ep H}
    (h : mget r.hashRing p = some e) : findInt32 r p = .ep e := by
  have hmem : p ∈ r.sortedKeys.toList := (hK.2 p).2 (by rw [h]; rfl)
  have hs : IsSucc (fun q => q ∈ r.sortedKeys.toList) p p :=
    ⟨hmem, Or.inl ⟨Nat.le_refl _, fun q _ hq => hq⟩⟩
  rw [findInt32_of_succ r hK.1 p p hs, h]

/-- `Refresh([e1, e2])` for two distinct hosts: `e2`'s points are written last -/
theorem refresh_pair (pts : H → Nat → List Nat) (r : Ring H) (e1 e2 : Ep H) (hne : e1.host ≠ e2.host) :
    (refresh pts r [e1, e2]).hashRing =
      (ptsOf r.cfg pts e2).foldl (fun m p => mset m p e2)
        ((ptsOf r.cfg pts e1).foldl (fun m p => mset m p e1) []) ∧
    (refresh pts r [e1, e2]).mapValues = [e1.host, e2.host] := by
  have hne' : ¬ e2.host = e1.host := fun h => hne h.symm
  simp [refresh, addLocked, hne']

theorem refresh_single (pts : H → Nat → List Nat) (r : Ring H) (e : Ep H) :
    (refresh pts r [e]).hashRing = (ptsOf r.cfg pts e).foldl (fun m p => mset m p e) [] ∧
    (refresh pts r [e]).mapValues = [e.host] := by
  simp [refresh, addLocked]

/-- after `Refresh([e1, e2])` a point claimed by both hosts belongs to `e2` -/
theorem refresh_pair_owner (pts : H → Nat → List Nat) (r : Ring H) (e1 e2 : Ep H) (hne : e1.host ≠ e2.host)
    (p : Nat) (hp : p ∈ ptsOf r.cfg pts e2) : mget (refresh pts r [e1, e2]).hashRing p = some e2 := by
  rw [(refresh_pair pts r e1 e2 hne).1, mget_foldl_mset]; simp [hp]

end Tars.ConHash
