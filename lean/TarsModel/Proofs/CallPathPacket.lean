import TarsModel.Model.CallPath
import TarsModel.Proofs.SchemaTop
import TarsModel.Proofs.Bytes
import TarsModel.Proofs.CallPathRender

/-!
# Request / response packets and their frames: the struct round trip of C03 instantiated for
  `requestf.RequestPacket` / `ResponsePacket`, and `TarsRequest` on one whole frame
-/
namespace Tars.CallPath
open Tars Consts

/-! ## byte buffers and string maps as values -/

theorem toS8_byte : ∀ b : Byte, byte (toU 8 (toS 8 b.val)) = b := by decide +kernel

theorem toS8_range : ∀ b : Byte, -(2:Int)^7 ≤ toS 8 b.val ∧ toS 8 b.val < (2:Int)^7 := by
  decide +kernel

theorem int8Bytes_bytesToVals (bs : Bytes) : int8Bytes (bytesToVals true bs) = bs := by
  induction bs with
  | nil => rfl
  | cons b bs ih =>
    simp only [bytesToVals, int8Bytes, List.map_cons, if_true] at ih ⊢
    rw [ih, toS8_byte]

theorem valBuf_bufVal (bs : Bytes) : valBuf (bufVal bs) = some bs := by
  simp [valBuf, bufVal, int8Bytes_bytesToVals]

theorem WTs_bytesToVals (env : Env) (bs : Bytes) : WTs env .i8 (bytesToVals true bs) := by
  induction bs with
  | nil => simp [bytesToVals, WTs]
  | cons b bs ih =>
    simp only [bytesToVals, List.map_cons, if_true, WTs] at ih ⊢
    exact ⟨by simpa only [WT, ScalarOK] using toS8_range b, ih⟩

theorem WT_bufVal (env : Env) (bs : Bytes) (h : bs.length < 2 ^ 31) : WT env (.vec .i8) (bufVal bs) := by
  simp only [bufVal, WT]
  exact ⟨by simpa [bytesToVals] using h, WTs_bytesToVals env bs⟩

theorem normElems_bytesToVals (env : Env) (bs : Bytes) :
    normElems env .i8 (bytesToVals true bs) = bytesToVals true bs := by
  induction bs with
  | nil => rfl
  | cons b bs ih =>
    simp only [bytesToVals, List.map_cons, if_true, normElems] at ih ⊢
    rw [ih]; simp [normVar]

theorem normVar_bufVal (env : Env) (req : Bool) (bs : Bytes) :
    normVar env req (.vec .i8) none (bufVal bs) = bufVal bs := by
  simp [bufVal, normVar, normElems_bytesToVals]

/-- a Go `map[string]string` that fits a packet: keys distinct (it is a map), fewer than 2^31
    entries, strings shorter than 2^32 bytes -/
def MapOK (m : StrMap) : Prop :=
  m.length < 2 ^ 31 ∧ m.Pairwise (fun a b => a.1 ≠ b.1) ∧
  ∀ p ∈ m, p.1.length < 2 ^ 32 ∧ p.2.length < 2 ^ 32

theorem valMap_mapVal (m : StrMap) : valMap (mapVal m) = some m := by
  simp only [valMap, mapVal]
  induction m with
  | nil => rfl
  | cons p m ih => simp [valMapAux, ih]

theorem WT_mapVal (env : Env) (m : StrMap) (h : MapOK m) : WT env mapStrStr (mapVal m) := by
  obtain ⟨h1, h2, h3⟩ := h
  simp only [mapVal, mapStrStr, WT]
  refine ⟨by simpa using h1, ?_, ?_⟩
  · unfold KeysDistinct
    rw [List.pairwise_map]
    exact h2.imp (fun {a b} hab => by simpa [keyEq] using hab)
  · clear h1 h2
    induction m with
    | nil => simp [WTp]
    | cons p m ih =>
      simp only [List.map_cons, WTp]
      have hp := h3 p (by simp)
      exact ⟨by simpa only [WT, ScalarOK] using hp.1, by simpa only [WT, ScalarOK] using hp.2,
        ih (fun q hq => h3 q (by simp [hq]))⟩

theorem normVar_mapVal (env : Env) (req : Bool) (m : StrMap) :
    normVar env req mapStrStr none (mapVal m) = mapVal m := by
  simp only [mapVal, mapStrStr, normVar]
  congr 1
  induction m with
  | nil => rfl
  | cons p m ih => simp only [List.map_cons, normPairs, ih]; simp [normVar]

theorem mapsSmall_mapVal (m : StrMap) (h : 2 * m.length < 2 ^ 31) : mapsSmall (mapVal m) = true := by
  simp only [mapVal, mapsSmall, List.length_map, Bool.and_eq_true, decide_eq_true_eq]
  refine ⟨h, ?_⟩
  clear h
  induction m with
  | nil => rfl
  | cons p m ih => simp [mapsSmallP, mapsSmall, ih]

/-! ## the packet schema -/

def rk0 : String → Nat := fun _ => 0

theorem packetEnv_wf : EnvWF packetEnv rk0 := by
  intro name fs h
  simp only [packetEnv, Env.find] at h
  split at h
  · cases h
    refine ⟨Nat.zero_le _, by simp +decide [TagsAsc], ?_⟩
    intro f hf
    simp only [reqPacketFields, List.mem_cons, List.not_mem_nil, or_false] at hf
    rcases hf with rfl | rfl | rfl | rfl | rfl | rfl | rfl | rfl | rfl | rfl <;>
      simp +decide [FieldOK, TyOK, ScalarOK]
  · split at h
    · cases h
      refine ⟨Nat.zero_le _, by simp +decide [TagsAsc], ?_⟩
      intro f hf
      simp only [rspPacketFields, List.mem_cons, List.not_mem_nil, or_false] at hf
      rcases hf with rfl | rfl | rfl | rfl | rfl | rfl | rfl | rfl | rfl <;>
        simp +decide [FieldOK, TyOK, ScalarOK]
    · cases h

theorem find_req : packetEnv.find reqPacketName = some reqPacketFields := by
  simp [packetEnv, Env.find]

theorem find_rsp : packetEnv.find rspPacketName = some rspPacketFields := by
  simp +decide [packetEnv, Env.find, reqPacketName, rspPacketName]

abbrev I16 (i : Int) : Prop := -(2:Int)^15 ≤ i ∧ i < (2:Int)^15
abbrev I8 (i : Int) : Prop := -(2:Int)^7 ≤ i ∧ i < (2:Int)^7
abbrev I32 (i : Int) : Prop := -(2:Int)^31 ≤ i ∧ i < (2:Int)^31

/-- the members of a request packet are in the range of their Go types -/
structure ReqPacketOK (p : ReqPacket) : Prop where
  ver : I16 p.iVersion
  pt  : I8 p.cPacketType
  mt  : I32 p.iMessageType
  id  : I32 p.iRequestId
  sn  : p.sServantName.length < 2 ^ 32
  fn  : p.sFuncName.length < 2 ^ 32
  buf : p.sBuffer.length < 2 ^ 31
  to  : I32 p.iTimeout
  ctx : MapOK p.context
  st  : MapOK p.status

structure RspPacketOK (p : RspPacket) : Prop where
  ver  : I16 p.iVersion
  pt   : I8 p.cPacketType
  id   : I32 p.iRequestId
  mt   : I32 p.iMessageType
  ret  : I32 p.iRet
  buf  : p.sBuffer.length < 2 ^ 31
  st   : MapOK p.status
  desc : p.sResultDesc.length < 2 ^ 32
  ctx  : MapOK p.context

theorem reqPacket_wt (p : ReqPacket) (h : ReqPacketOK p) :
    WellTyped packetEnv rk0 reqPacketName p.toVal := by
  refine ⟨packetEnv_wf, ?_⟩
  simp only [ReqPacket.toVal, WT, find_req, reqPacketFields, WTm, ScalarOK]
  exact ⟨h.ver, h.pt, h.mt, h.id, h.sn, h.fn, WT_bufVal _ _ h.buf, h.to, WT_mapVal _ _ h.ctx,
    WT_mapVal _ _ h.st, trivial⟩

theorem rspPacket_wt (p : RspPacket) (h : RspPacketOK p) :
    WellTyped packetEnv rk0 rspPacketName p.toVal := by
  refine ⟨packetEnv_wf, ?_⟩
  simp only [RspPacket.toVal, WT, find_rsp, rspPacketFields, WTm, ScalarOK]
  exact ⟨h.ver, h.pt, h.id, h.mt, h.ret, WT_bufVal _ _ h.buf, WT_mapVal _ _ h.st, h.desc,
    WT_mapVal _ _ h.ctx, trivial⟩

theorem reqPacket_norm (p : ReqPacket) : norm packetEnv reqPacketName p.toVal = p.toVal := by
  simp only [norm, ReqPacket.toVal, normVar, find_req, reqPacketFields, normMembers,
    normVar_bufVal, normVar_mapVal]

theorem rspPacket_norm (p : RspPacket) : norm packetEnv rspPacketName p.toVal = p.toVal := by
  simp only [norm, RspPacket.toVal, normVar, find_rsp, rspPacketFields, normMembers,
    normVar_bufVal, normVar_mapVal]

theorem reqPacket_ofVal (p : ReqPacket) : ReqPacket.ofVal p.toVal = some p := by
  simp [ReqPacket.ofVal, ReqPacket.toVal, valBuf_bufVal, valMap_mapVal]

theorem rspPacket_ofVal (p : RspPacket) : RspPacket.ofVal p.toVal = some p := by
  simp [RspPacket.ofVal, RspPacket.toVal, valBuf_bufVal, valMap_mapVal]

/-- `reqPackage.ReadFrom(codec.NewReader(body))` on what `req.WriteTo` wrote -/
theorem decode_reqPacket (p : ReqPacket) (h : ReqPacketOK p) :
    (decStruct packetEnv reqPacketName (freshStruct packetEnv reqPacketName)
      (Reader.mk0 (encStruct packetEnv reqPacketName p.toVal))).1 = .ok p.toVal := by
  have hr : (Reader.mk0 (encStruct packetEnv reqPacketName p.toVal)).rest
      = encStruct packetEnv reqPacketName p.toVal ++ [] := by simp [Reader.mk0, Reader.rest]
  rw [decStruct_rt packetEnv rk0 reqPacketName p.toVal _ [] (reqPacket_wt p h) (Or.inl rfl) hr,
    reqPacket_norm]

theorem decode_rspPacket (p : RspPacket) (h : RspPacketOK p) :
    (decStruct packetEnv rspPacketName (freshStruct packetEnv rspPacketName)
      (Reader.mk0 (encStruct packetEnv rspPacketName p.toVal))).1 = .ok p.toVal := by
  have hr : (Reader.mk0 (encStruct packetEnv rspPacketName p.toVal)).rest
      = encStruct packetEnv rspPacketName p.toVal ++ [] := by simp [Reader.mk0, Reader.rest]
  rw [decStruct_rt packetEnv rk0 rspPacketName p.toVal _ [] (rspPacket_wt p h) (Or.inl rfl) hr,
    rspPacket_norm]

/-! ## frames -/

theorem be4_shape (n : Nat) : ∃ b0 b1 b2 b3 : Byte, be 4 n = [b0, b1, b2, b3] :=
  ⟨_, _, _, _, rfl⟩

theorem tarsRequest_full (maxLen : Int) (b0 b1 b2 b3 : Byte) (body : Bytes) (n : Nat)
    (hv : beVal [b0, b1, b2, b3] = n) (hn : n = 4 + body.length) (h1 : (n : Int) ≤ maxLen) :
    Frame.tarsRequest maxLen (b0 :: b1 :: b2 :: b3 :: body) = .ret n protoPackageFull := by
  unfold Frame.tarsRequest
  simp only [List.length_cons, headerBytes, minHeaderLen, hv]
  have e1 : ¬ (body.length + 1 + 1 + 1 + 1 < 4) := by omega
  have e2 : ¬ (n < 4 ∨ (n : Int) > maxLen) := by omega
  have e3 : ¬ (body.length + 1 + 1 + 1 + 1 < n) := by omega
  simp only [e1, e2, e3, if_false]

theorem beVal_be4 (b0 b1 b2 b3 : Byte) (n : Nat) (hb : be 4 n = [b0, b1, b2, b3])
    (h2 : n < 2 ^ 32) : beVal [b0, b1, b2, b3] = n := by
  rw [← hb, beVal_be]; exact Nat.mod_eq_of_lt (by simpa using h2)

theorem recvFirst_cons (maxLen : Int) (b0 b1 b2 b3 : Byte) (body : Bytes) (n : Nat)
    (hv : beVal [b0, b1, b2, b3] = n) (hn : n = 4 + body.length) (h1 : (n : Int) ≤ maxLen) :
    recvFirst maxLen (b0 :: b1 :: b2 :: b3 :: body) = .pkg (b0 :: b1 :: b2 :: b3 :: body) := by
  have hl : (b0 :: b1 :: b2 :: b3 :: body).length ≤ n := by
    simp only [List.length_cons]; omega
  have e : recvFirst maxLen (b0 :: b1 :: b2 :: b3 :: body)
      = recvOf (b0 :: b1 :: b2 :: b3 :: body) (Frame.tarsRequest maxLen (b0 :: b1 :: b2 :: b3 :: body)) := rfl
  rw [e, tarsRequest_full maxLen b0 b1 b2 b3 body n hv hn h1]
  simp only [recvOf, protoPackageFull, transportPackageFull, if_true, List.take_of_length_le hl]

/-- `TarsRequest` on exactly one frame (header: total length `n`, big endian) within the limit: the
    whole frame is handed on -/
theorem recvFirst_frame (maxLen : Int) (body : Bytes) (n : Nat) (hn : n = 4 + body.length)
    (h1 : (n : Int) ≤ maxLen) (h2 : n < 2 ^ 32) :
    recvFirst maxLen (be 4 n ++ body) = .pkg (be 4 n ++ body) := by
  obtain ⟨b0, b1, b2, b3, hb⟩ := be4_shape n
  have hv := beVal_be4 b0 b1 b2 b3 _ hb h2
  rw [hb]
  exact recvFirst_cons maxLen b0 b1 b2 b3 body n hv hn h1

theorem requestPack_shape (p : ReqPacket) :
    requestPack p = be 4 (4 + (encStruct packetEnv reqPacketName p.toVal).length)
      ++ encStruct packetEnv reqPacketName p.toVal := by
  simp [requestPack, putUint32, zeros, cpReqHeader]
  congr 1; omega

theorem rsp2Byte_shape (p : RspPacket) :
    rsp2Byte p = be 4 (4 + (encStruct packetEnv rspPacketName p.toVal).length)
      ++ encStruct packetEnv rspPacketName p.toVal := by
  simp [rsp2Byte, putUint32, zeros, cpRspHeader]
  congr 1; omega

theorem drop4_frame (n : Nat) (body : Bytes) : (be 4 n ++ body).drop 4 = body := by
  obtain ⟨b0, b1, b2, b3, hb⟩ := be4_shape n
  rw [hb]; rfl

theorem frame_length (n : Nat) (body : Bytes) : (be 4 n ++ body).length = 4 + body.length := by
  simp only [List.length_append, be_length]

end Tars.CallPath
