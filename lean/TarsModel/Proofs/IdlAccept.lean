/-
  Acceptance of the grammar at token level: for every well-formed program `p` of the grammar,
  `parseTokens v p.toks = ok p.ast`.
-/
import TarsModel.Proofs.IdlTotal

namespace Tars.Idl

/-! ### evaluation lemmas for `next`/`expect…` on a `cons` -/

theorem next_cons' (tk t : Tok) (r : List Tok) (h : t ≠ .bad) : (PS.mk tk (t :: r)).next = .ok ⟨t, r⟩ := by
  rw [next_cons, if_neg h]

theorem expect_cons (tk t : Tok) (r : List Tok) (h : t ≠ .bad) : expect t ⟨tk, t :: r⟩ = .ok ⟨t, r⟩ := by
  unfold expect
  rw [next_cons' _ _ _ h]
  simp

theorem expectName_cons (tk : Tok) (n : Bytes) (r : List Tok) :
    expectName ⟨tk, .name n :: r⟩ = .ok (n, ⟨.name n, r⟩) := by
  unfold expectName
  rw [next_cons' _ _ _ (by simp)]
  simp

theorem expectInt_cons (tk : Tok) (t : Bytes) (v : Int) (r : List Tok) :
    expectInt ⟨tk, .int t v :: r⟩ = .ok (v, ⟨.int t v, r⟩) := by
  unfold expectInt
  rw [next_cons' _ _ _ (by simp)]
  simp

theorem expectStr_cons (tk : Tok) (v : Bytes) (r : List Tok) :
    expectStr ⟨tk, .str v :: r⟩ = .ok (v, ⟨.str v, r⟩) := by
  unfold expectStr
  rw [next_cons' _ _ _ (by simp)]
  simp

theorem GTy.hd_ne_bad (t : GTy) : t.hd ≠ .bad := by cases t <;> simp [GTy.hd]
theorem GTy.hd_startsType (t : GTy) : t.hd.startsType = true := by cases t <;> rfl
theorem GTy.hd_ne_void (t : GTy) : t.hd ≠ .kvoid := by cases t <;> simp [GTy.hd]
theorem GTy.hd_ne_braceR (t : GTy) : t.hd ≠ .braceR := by cases t <;> simp [GTy.hd]

@[simp] theorem GTy.hd_prim (p : Prim) : (GTy.prim p).hd = .tprim p := rfl
@[simp] theorem GTy.hd_unsigned (p : Prim) : (GTy.unsigned p).hd = .kunsigned := rfl
@[simp] theorem GTy.hd_vector (t : GTy) : (GTy.vector t).hd = .tvector := rfl
@[simp] theorem GTy.hd_map (a b : GTy) : (GTy.map a b).hd = .tmap := rfl
@[simp] theorem GTy.hd_named (n : Bytes) : (GTy.named n).hd = .name n := rfl
@[simp] theorem GTy.tlK_prim (p : Prim) (k : List Tok) : (GTy.prim p).tlK k = k := rfl
@[simp] theorem GTy.tlK_unsigned (p : Prim) (k : List Tok) : (GTy.unsigned p).tlK k = .tprim p :: k := rfl
@[simp] theorem GTy.tlK_vector (t : GTy) (k : List Tok) :
    (GTy.vector t).tlK k = .shl :: t.hd :: t.tlK (.shr :: k) := rfl
@[simp] theorem GTy.tlK_map (a b : GTy) (k : List Tok) :
    (GTy.map a b).tlK k = .shl :: a.hd :: a.tlK (.comma :: b.hd :: b.tlK (.shr :: k)) := rfl
@[simp] theorem GTy.tlK_named (n : Bytes) (k : List Tok) : (GTy.named n).tlK k = k := rfl

theorem GTy.tlK_length (t : GTy) (k : List Tok) : k.length ≤ (t.tlK k).length := by
  induction t generalizing k with
  | prim p => simp
  | named n => simp
  | unsigned p => simp
  | vector t ih =>
    have := ih (.shr :: k)
    simp only [GTy.tlK_vector, List.length_cons] at *; omega
  | map a b iha ihb =>
    have h1 := ihb (.shr :: k)
    have h2 := iha (.comma :: b.hd :: b.tlK (.shr :: k))
    simp only [GTy.tlK_map, List.length_cons] at *; omega

/-- the progress check of a state reached after consuming at least one more token -/
theorem size_lt (tk tk' : Tok) (l l' : List Tok) (h : l'.length < l.length) :
    (PS.mk tk' l').size < (PS.mk tk l).size := by
  simp only [PS.size_mk]; split <;> split <;> omega

/-- `parseType` reads exactly the tokens of a type expression -/
theorem parseType_accept (t : GTy) (h : t.WF = true) (k : List Tok) :
    parseType ⟨t.hd, t.tlK k⟩ = .ok (t.ast, ⟨t.last, k⟩) := by
  induction t generalizing k with
  | prim p => rw [parseType]; rfl
  | named n => rw [parseType]; rfl
  | unsigned p =>
    show parseType ⟨.kunsigned, .tprim p :: k⟩ = _
    rw [parseType]
    rw [next_cons' _ _ _ (by simp)]
    simp only [Res.bind_ok]
    rw [dif_pos (size_lt _ _ _ _ (by simp only [List.length_cons]; omega))]
    rw [parseType]
    simp only [Res.bind_ok, Res.pure_eq]
    simp only [GTy.WF, Bool.or_eq_true, decide_eq_true_eq] at h
    rcases h with (h | h) | h <;> subst h <;> rfl
  | vector t ih =>
    have ht : t.WF = true := h
    show parseType ⟨.tvector, .shl :: t.hd :: t.tlK (.shr :: k)⟩ = _
    rw [parseType]
    rw [expect_cons _ _ _ (by simp)]
    simp only [Res.bind_ok]
    rw [next_cons' _ _ _ t.hd_ne_bad]
    simp only [Res.bind_ok]
    rw [dif_pos (size_lt _ _ _ _ (by simp only [List.length_cons]; omega))]
    rw [ih ht]
    simp only [Res.bind_ok]
    rw [expect_cons _ _ _ (by simp)]
    rfl
  | map a b iha ihb =>
    have hab : a.WF = true ∧ b.WF = true := by simpa [GTy.WF] using h
    show parseType ⟨.tmap, .shl :: a.hd :: a.tlK (.comma :: b.hd :: b.tlK (.shr :: k))⟩ = _
    rw [parseType]
    rw [expect_cons _ _ _ (by simp)]
    simp only [Res.bind_ok]
    rw [next_cons' _ _ _ a.hd_ne_bad]
    simp only [Res.bind_ok]
    rw [dif_pos (size_lt _ _ _ _ (by simp only [List.length_cons]; omega))]
    rw [iha hab.1]
    simp only [Res.bind_ok]
    rw [expect_cons _ _ _ (by simp)]
    simp only [Res.bind_ok]
    rw [next_cons' _ _ _ b.hd_ne_bad]
    simp only [Res.bind_ok]
    rw [dif_pos (size_lt _ _ _ _ (by
      have := a.tlK_length (.comma :: b.hd :: b.tlK (.shr :: k))
      simp only [List.length_cons] at *; omega))]
    rw [ihb hab.2]
    simp only [Res.bind_ok]
    rw [expect_cons _ _ _ (by simp)]
    rfl

/-! ### enums -/

theorem enumLoop_close (v : Variant) (acc : List EnumMember) (pre : Tok) (k : List Tok) :
    enumLoop v acc ⟨pre, .braceR :: k⟩ = .ok (acc, ⟨.braceR, k⟩) := by
  rw [enumLoop, next_cons' _ _ _ (by simp)]
  rfl

theorem enumLoop_member_comma (v : Variant) (acc : List EnumMember) (pre : Tok) (m : GEnumMem)
    (rest : List Tok) :
    enumLoop v acc ⟨pre, m.toksK (.comma :: rest)⟩ = enumLoop v (acc ++ [m.ast]) ⟨.comma, rest⟩ := by
  obtain ⟨key, val⟩ := m
  cases val with
  | auto =>
    show enumLoop v acc ⟨pre, .name key :: .comma :: rest⟩ = _
    rw [enumLoop, next_cons' _ _ _ (by simp)]
    simp only [Res.bind_ok]
    rw [next_cons' _ _ _ (by simp)]
    simp only [Res.bind_ok]
    rw [dif_pos (size_lt _ _ _ _ (by simp only [List.length_cons]; omega))]
    rfl
  | int t i =>
    show enumLoop v acc ⟨pre, .name key :: .eq :: .int t i :: .comma :: rest⟩ = _
    rw [enumLoop, next_cons' _ _ _ (by simp)]
    simp only [Res.bind_ok]
    rw [next_cons' _ _ _ (by simp)]
    simp only [Res.bind_ok]
    rw [next_cons' _ _ _ (by simp)]
    simp only [Res.bind_ok]
    rw [next_cons' _ _ _ (by simp)]
    simp only [Res.bind_ok]
    rw [dif_pos (size_lt _ _ _ _ (by simp only [List.length_cons]; omega))]
    rfl
  | ref n =>
    show enumLoop v acc ⟨pre, .name key :: .eq :: .name n :: .comma :: rest⟩ = _
    rw [enumLoop, next_cons' _ _ _ (by simp)]
    simp only [Res.bind_ok]
    rw [next_cons' _ _ _ (by simp)]
    simp only [Res.bind_ok]
    rw [next_cons' _ _ _ (by simp)]
    simp only [Res.bind_ok]
    rw [next_cons' _ _ _ (by simp)]
    simp only [Res.bind_ok]
    rw [dif_pos (size_lt _ _ _ _ (by simp only [List.length_cons]; omega))]
    rfl

theorem enumLoop_member_close (v : Variant) (acc : List EnumMember) (pre : Tok) (m : GEnumMem)
    (k : List Tok) :
    enumLoop v acc ⟨pre, m.toksK (.braceR :: k)⟩ = .ok (acc ++ [m.ast], ⟨.braceR, k⟩) := by
  obtain ⟨key, val⟩ := m
  cases val with
  | auto =>
    show enumLoop v acc ⟨pre, .name key :: .braceR :: k⟩ = _
    rw [enumLoop, next_cons' _ _ _ (by simp)]
    simp only [Res.bind_ok]
    rw [next_cons' _ _ _ (by simp)]
    rfl
  | int t i =>
    show enumLoop v acc ⟨pre, .name key :: .eq :: .int t i :: .braceR :: k⟩ = _
    rw [enumLoop, next_cons' _ _ _ (by simp)]
    simp only [Res.bind_ok]
    rw [next_cons' _ _ _ (by simp)]
    simp only [Res.bind_ok]
    rw [next_cons' _ _ _ (by simp)]
    simp only [Res.bind_ok]
    rw [next_cons' _ _ _ (by simp)]
    rfl
  | ref n =>
    show enumLoop v acc ⟨pre, .name key :: .eq :: .name n :: .braceR :: k⟩ = _
    rw [enumLoop, next_cons' _ _ _ (by simp)]
    simp only [Res.bind_ok]
    rw [next_cons' _ _ _ (by simp)]
    simp only [Res.bind_ok]
    rw [next_cons' _ _ _ (by simp)]
    simp only [Res.bind_ok]
    rw [next_cons' _ _ _ (by simp)]
    rfl

theorem enumLoop_accept (v : Variant) (ms : List GEnumMem) (tr : Bool) (acc : List EnumMember)
    (pre : Tok) (k : List Tok) :
    enumLoop v acc ⟨pre, enumMemsK ms tr k⟩ = .ok (acc ++ ms.map GEnumMem.ast, ⟨.braceR, k⟩) := by
  induction ms generalizing acc pre with
  | nil => simp [enumMemsK, enumLoop_close]
  | cons m ms ih =>
    cases ms with
    | nil =>
      cases tr with
      | false => simp [enumMemsK, enumLoop_member_close]
      | true =>
        simp only [enumMemsK, if_true]
        rw [enumLoop_member_comma, enumLoop_close]
        simp
    | cons m2 ms =>
      simp only [enumMemsK]
      rw [enumLoop_member_comma, ih]
      simp

theorem parseEnum_accept (v : Variant) (m : Module) (e : GEnum) (pre : Tok) (k : List Tok)
    (h : m.enums.any (fun x => x.name = e.name) = false) :
    parseEnum v m ⟨pre, .name e.name :: .braceL :: enumMemsK e.mems e.trailingComma (.semi :: k)⟩ =
      .ok (GDecl.addTo m (.enum e), ⟨.semi, k⟩) := by
  unfold parseEnum
  rw [expectName_cons]
  simp only [Res.bind_ok, h]
  rw [expect_cons _ _ _ (by simp)]
  simp only [Res.bind_ok]
  rw [enumLoop_accept]
  simp only [Res.bind_ok]
  rw [expect_cons _ _ _ (by simp)]
  simp [GDecl.addTo]

/-! ### structs -/

theorem parseDefault_accept (d : GDefault) (t : GTy) (h : d.okFor t = true) :
    parseDefault t.ast d.tok = .ok d.ast := by
  cases d <;> cases t <;> simp [GDefault.okFor] at h <;>
    simp [parseDefault, GDefault.tok, GDefault.ast, GTy.ast, Prim.isNumber, *]
  all_goals (rename_i p; cases p <;> simp_all)

theorem parseStructMember_close (pre : Tok) (k : List Tok) :
    parseStructMember ⟨pre, .braceR :: k⟩ = .ok (none, ⟨.braceR, k⟩) := by
  unfold parseStructMember
  rw [next_cons' _ _ _ (by simp)]
  rfl

theorem parseStructMember_accept (f : GField) (h : f.WF = true) (pre : Tok) (k : List Tok) :
    parseStructMember ⟨pre, f.toksK k⟩ = .ok (some f.ast, ⟨.semi, k⟩) := by
  obtain ⟨tagText, tag, req, ty, name, suffix⟩ := f
  have hty : ty.WF = true := by
    simp only [GField.WF, Bool.and_eq_true] at h; exact h.1
  cases req
  all_goals
    unfold parseStructMember
    simp only [GField.toksK, GTy.toksK]
    rw [next_cons' _ _ _ (by simp)]
    simp only [Res.bind_ok]
    rw [next_cons' _ _ _ (by simp)]
    simp only [Res.bind_ok, if_true, if_false, Bool.false_eq_true]
    rw [next_cons' _ _ _ ty.hd_ne_bad]
    simp only [Res.bind_ok, ty.hd_startsType, Bool.not_true, Bool.false_eq_true, if_false]
    rw [parseType_accept ty hty]
    simp only [Res.bind_ok]
    rw [expectName_cons]
    simp only [Res.bind_ok]
    cases suffix with
    | plain =>
      simp only
      rw [next_cons' _ _ _ (by simp)]
      rfl
    | array lt len =>
      simp only
      rw [next_cons' _ _ _ (by simp)]
      simp only [Res.bind_ok]
      rw [expectInt_cons]
      simp only [Res.bind_ok]
      rw [expect_cons _ _ _ (by simp)]
      simp only [Res.bind_ok]
      rw [expect_cons _ _ _ (by simp)]
      rfl
    | dflt d =>
      have hd : d.okFor ty = true := by
        simp only [GField.WF, Bool.and_eq_true] at h; exact h.2
      simp only
      rw [next_cons' _ _ _ (by simp)]
      simp only [Res.bind_ok]
      rw [next_cons' _ _ _ (by cases d <;> simp [GDefault.tok])]
      simp only [Res.bind_ok]
      rw [parseDefault_accept d ty hd]
      simp only [Res.bind_ok]
      rw [expect_cons _ _ _ (by simp)]
      rfl

theorem GField.toksK_cons (f : GField) (k : List Tok) : ∃ r, f.toksK k = .int f.tagText f.tag :: r :=
  ⟨_, rfl⟩

theorem GField.toksK_length (f : GField) (k : List Tok) : k.length < (f.toksK k).length := by
  obtain ⟨tagText, tag, req, ty, name, suffix⟩ := f
  cases suffix with
  | plain =>
    have h1 := ty.tlK_length (.name name :: .semi :: k)
    simp only [GField.toksK, GTy.toksK, List.length_cons] at *
    omega
  | array t l =>
    have h1 := ty.tlK_length (.name name :: .sqL :: .int t l :: .sqR :: .semi :: k)
    simp only [GField.toksK, GTy.toksK, List.length_cons] at *
    omega
  | dflt d =>
    have h1 := ty.tlK_length (.name name :: .eq :: d.tok :: .semi :: k)
    simp only [GField.toksK, GTy.toksK, List.length_cons] at *
    omega

theorem structLoop_accept (fs : List GField) (h : fs.all GField.WF = true) (acc : List StructMember)
    (pre : Tok) (k : List Tok) :
    structLoop acc ⟨pre, fieldsK fs (.braceR :: k)⟩ = .ok (acc ++ fs.map GField.ast, ⟨.braceR, k⟩) := by
  induction fs generalizing acc pre with
  | nil =>
    show structLoop acc ⟨pre, .braceR :: k⟩ = _
    rw [structLoop]
    rw [parseStructMember_close]
    simp
  | cons f fs ih =>
    have hf : f.WF = true ∧ fs.all GField.WF = true := by simpa using h
    show structLoop acc ⟨pre, f.toksK (fieldsK fs (.braceR :: k))⟩ = _
    rw [structLoop]
    rw [parseStructMember_accept f hf.1]
    simp only [Res.bind_ok]
    rw [dif_pos (size_lt _ _ _ _ (f.toksK_length _))]
    rw [ih hf.2]
    simp

theorem parseStruct_accept (m : Module) (st : GStruct) (pre : Tok) (k : List Tok)
    (h1 : m.structs.any (fun x => x.name = st.name) = false)
    (h2 : st.fields.all GField.WF = true)
    (h3 : dupTag (st.fields.map GField.ast) = false) :
    parseStruct m ⟨pre, .name st.name :: .braceL :: fieldsK st.fields (.braceR :: .semi :: k)⟩ =
      .ok (GDecl.addTo m (.struct st), ⟨.semi, k⟩) := by
  unfold parseStruct
  rw [expectName_cons]
  simp only [Res.bind_ok, h1]
  rw [expect_cons _ _ _ (by simp)]
  simp only [Res.bind_ok]
  rw [structLoop_accept _ h2]
  simp only [Res.bind_ok]
  rw [expect_cons _ _ _ (by simp)]
  simp [GDecl.addTo, h3]

/-! ### constants, keys -/

theorem parseConst_accept (m : Module) (c : GConst) (h : c.WF = true) (pre : Tok) (k : List Tok) :
    parseConst m ⟨pre, c.ty.toksK (.name c.name :: .eq :: c.lit.tok :: .semi :: k)⟩ =
      .ok (GDecl.addTo m (.const c), ⟨.semi, k⟩) := by
  obtain ⟨ty, name, lit⟩ := c
  unfold parseConst
  simp only [GTy.toksK]
  rw [next_cons' _ _ _ ty.hd_ne_bad]
  simp only [Res.bind_ok]
  cases ty with
  | vector t => simp [GConst.WF] at h
  | map a b => simp [GConst.WF] at h
  | named n => simp [GConst.WF] at h
  | prim p =>
    simp only [GTy.hd_prim, GTy.tlK_prim]
    rw [show parseType ⟨.tprim p, .name name :: .eq :: lit.tok :: .semi :: k⟩ =
      .ok (.prim p false, ⟨.tprim p, .name name :: .eq :: lit.tok :: .semi :: k⟩) from by rw [parseType]]
    simp only [Res.bind_ok]
    rw [expectName_cons]
    simp only [Res.bind_ok]
    rw [expect_cons _ _ _ (by simp)]
    simp only [Res.bind_ok]
    rw [next_cons' _ _ _ (by cases lit <;> simp [GLit.tok])]
    simp only [Res.bind_ok]
    cases lit <;> simp [GConst.WF] at h <;>
      simp [GLit.tok, GLit.ast, GDecl.addTo, GTy.ast, Prim.isNumber, h, expect_cons]
    all_goals (cases p <;> simp_all [expect_cons])
  | unsigned p =>
    have hp : p = .byte ∨ p = .short ∨ p = .int := by
      cases lit <;> simp [GConst.WF, or_assoc] at h <;> exact h
    have hwf : (GTy.unsigned p).WF = true := by
      rcases hp with h | h | h <;> subst h <;> rfl
    have := parseType_accept (.unsigned p) hwf (.name name :: .eq :: lit.tok :: .semi :: k)
    simp only [GTy.hd_unsigned] at this ⊢
    rw [this]
    simp only [Res.bind_ok]
    rw [expectName_cons]
    simp only [Res.bind_ok]
    rw [expect_cons _ _ _ (by simp)]
    simp only [Res.bind_ok]
    rw [next_cons' _ _ _ (by cases lit <;> simp [GLit.tok])]
    simp only [Res.bind_ok]
    cases lit <;> simp [GConst.WF] at h <;>
      simp [GLit.tok, GLit.ast, GDecl.addTo, GTy.ast, GTy.last, Prim.isNumber, expect_cons]
    all_goals (rcases hp with h | h | h <;> subst h <;> simp)

theorem keyLoop_accept (n : Bytes) (more : List Bytes) (acc : List Bytes) (pre : Tok) (k : List Tok) :
    keyLoop acc ⟨pre, .name n :: keyMoreK more k⟩ = .ok (acc ++ n :: more, ⟨.semi, k⟩) := by
  induction more generalizing n acc pre with
  | nil =>
    show keyLoop acc ⟨pre, .name n :: .sqR :: .semi :: k⟩ = _
    rw [keyLoop, expectName_cons]
    simp only [Res.bind_ok]
    rw [next_cons' _ _ _ (by simp)]
    simp only [Res.bind_ok]
    rw [expect_cons _ _ _ (by simp)]
    rfl
  | cons m ms ih =>
    show keyLoop acc ⟨pre, .name n :: .comma :: .name m :: keyMoreK ms k⟩ = _
    rw [keyLoop, expectName_cons]
    simp only [Res.bind_ok]
    rw [next_cons' _ _ _ (by simp)]
    simp only [Res.bind_ok]
    rw [dif_pos (size_lt _ _ _ _ (by simp only [List.length_cons]; omega))]
    rw [ih]
    simp

theorem parseHashKey_accept (m : Module) (x : GKey) (pre : Tok) (k : List Tok) :
    parseHashKey m ⟨pre, .sqL :: .name x.name :: .comma :: .name x.first :: keyMoreK x.more k⟩ =
      .ok (GDecl.addTo m (.key x), ⟨.semi, k⟩) := by
  unfold parseHashKey
  rw [expect_cons _ _ _ (by simp)]
  simp only [Res.bind_ok]
  rw [expectName_cons]
  simp only [Res.bind_ok]
  rw [expect_cons _ _ _ (by simp)]
  simp only [Res.bind_ok]
  rw [keyLoop_accept]
  simp [GDecl.addTo]

/-! ### interfaces -/

theorem GParam.hd_ne_bad (p : GParam) : p.hd ≠ .bad := by
  unfold GParam.hd; split
  · simp
  · exact p.ty.hd_ne_bad

theorem GParam.tlK_length (p : GParam) (k : List Tok) : k.length < (p.tlK k).length := by
  unfold GParam.tlK
  have := p.ty.tlK_length (.name p.name :: k)
  split <;> simp only [List.length_cons] at * <;> omega

/-- one parameter followed by `,`: the loop continues with the next parameter -/
theorem argLoop_param_comma (p : GParam) (h : p.ty.WF = true) (acc : List Arg) (x : Tok) (r : List Tok)
    (hx : x ≠ .bad) :
    argLoop acc ⟨p.hd, p.tlK (.comma :: x :: r)⟩ = argLoop (acc ++ [p.ast]) ⟨x, r⟩ := by
  obtain ⟨isOut, ty, name⟩ := p
  cases isOut with
  | true =>
    show argLoop acc ⟨.kout, ty.hd :: ty.tlK (.name name :: .comma :: x :: r)⟩ = _
    rw [argLoop]
    simp only []
    rw [next_cons' _ _ _ ty.hd_ne_bad]
    simp only [Res.bind_ok, Res.pure_eq]
    rw [parseType_accept ty h]
    simp only [Res.bind_ok]
    rw [next_cons' _ _ _ (by simp)]
    simp only [Res.bind_ok]
    rw [next_cons' _ _ _ (by simp)]
    simp only [Res.bind_ok, Res.pure_eq]
    rw [next_cons' _ _ _ hx]
    simp only [Res.bind_ok]
    rw [dif_pos (size_lt _ _ _ _ (by
      have := ty.tlK_length (.name name :: .comma :: x :: r)
      simp only [List.length_cons] at *; omega))]
    rfl
  | false =>
    show argLoop acc ⟨ty.hd, ty.tlK (.name name :: .comma :: x :: r)⟩ = _
    rw [argLoop]
    have hno : ty.hd ≠ .kout := by cases ty <;> simp
    split
    · rename_i heq; exact absurd heq hno
    · simp only [Res.bind_ok, Res.pure_eq]
      rw [parseType_accept ty h]
      simp only [Res.bind_ok]
      rw [next_cons' _ _ _ (by simp)]
      simp only [Res.bind_ok]
      rw [next_cons' _ _ _ (by simp)]
      simp only [Res.bind_ok, Res.pure_eq]
      rw [next_cons' _ _ _ hx]
      simp only [Res.bind_ok]
      rw [dif_pos (size_lt _ _ _ _ (by
        have := ty.tlK_length (.name name :: .comma :: x :: r)
        simp only [List.length_cons] at *; omega))]
      rfl

/-- the last parameter, followed by `)` `;` -/
theorem argLoop_param_close (p : GParam) (h : p.ty.WF = true) (acc : List Arg) (k : List Tok) :
    argLoop acc ⟨p.hd, p.tlK (.ptr :: .semi :: k)⟩ = .ok (acc ++ [p.ast], ⟨.semi, k⟩) := by
  obtain ⟨isOut, ty, name⟩ := p
  cases isOut with
  | true =>
    show argLoop acc ⟨.kout, ty.hd :: ty.tlK (.name name :: .ptr :: .semi :: k)⟩ = _
    rw [argLoop]
    simp only []
    rw [next_cons' _ _ _ ty.hd_ne_bad]
    simp only [Res.bind_ok, Res.pure_eq]
    rw [parseType_accept ty h]
    simp only [Res.bind_ok]
    rw [next_cons' _ _ _ (by simp)]
    simp only [Res.bind_ok]
    rw [next_cons' _ _ _ (by simp)]
    simp only [Res.bind_ok, Res.pure_eq]
    rw [expect_cons _ _ _ (by simp)]
    rfl
  | false =>
    show argLoop acc ⟨ty.hd, ty.tlK (.name name :: .ptr :: .semi :: k)⟩ = _
    rw [argLoop]
    have hno : ty.hd ≠ .kout := by cases ty <;> simp
    split
    · rename_i heq; exact absurd heq hno
    · simp only [Res.bind_ok, Res.pure_eq]
      rw [parseType_accept ty h]
      simp only [Res.bind_ok]
      rw [next_cons' _ _ _ (by simp)]
      simp only [Res.bind_ok]
      rw [next_cons' _ _ _ (by simp)]
      simp only [Res.bind_ok, Res.pure_eq]
      rw [expect_cons _ _ _ (by simp)]
      rfl

/-- the tokens after the first token of a non-empty parameter list -/
def paramsTl : GParam → List GParam → List Tok → List Tok
  | p, [], k => p.tlK (.ptr :: .semi :: k)
  | p, p2 :: ps, k => p.tlK (.comma :: p2.hd :: paramsTl p2 ps k)

theorem paramsK_cons (p : GParam) (ps : List GParam) (k : List Tok) :
    paramsK (p :: ps) k = p.hd :: paramsTl p ps k := by
  induction ps generalizing p with
  | nil => rfl
  | cons p2 ps ih =>
    simp only [paramsK, paramsTl, GParam.toksK]
    rw [ih]

theorem argLoop_accept (p : GParam) (ps : List GParam) (h : (p :: ps).all (fun p => p.ty.WF) = true)
    (acc : List Arg) (k : List Tok) :
    argLoop acc ⟨p.hd, paramsTl p ps k⟩ = .ok (acc ++ (p :: ps).map GParam.ast, ⟨.semi, k⟩) := by
  induction ps generalizing p acc with
  | nil =>
    have hp : p.ty.WF = true := by simpa using h
    simp only [paramsTl]
    rw [argLoop_param_close p hp]
    simp
  | cons p2 ps ih =>
    have hp : p.ty.WF = true ∧ (p2 :: ps).all (fun p => p.ty.WF) = true := by
      simp only [List.all_cons, Bool.and_eq_true] at h ⊢; exact h
    simp only [paramsTl]
    rw [argLoop_param_comma p hp.1 acc _ _ p2.hd_ne_bad]
    rw [ih p2 hp.2]
    simp

theorem GParam.hd_cases (p : GParam) : p.hd ≠ .shr ∧ p.hd ≠ .ptr := by
  unfold GParam.hd; split
  · simp
  · cases p.ty <;> simp

theorem parseInterfaceFun_close (pre : Tok) (k : List Tok) :
    parseInterfaceFun ⟨pre, .braceR :: k⟩ = .ok (none, ⟨.braceR, k⟩) := by
  unfold parseInterfaceFun
  rw [next_cons' _ _ _ (by simp)]
  rfl

/-- the part of `parseInterfaceFun` after the function name and `(` -/
theorem funParams_accept (params : List GParam) (h : params.all (fun p => p.ty.WF) = true)
    (name : Bytes) (hasRet : Bool) (ret : Option VarType) (k : List Tok) :
    (do
      let s5 ← (PS.mk .ptl (paramsK params k)).next
      match s5.tk with
      | .shr => pure (some (⟨name, hasRet, ret, []⟩ : Func), s5)
      | .ptr => do
        let s6 ← expect .semi s5
        pure (some ⟨name, hasRet, ret, []⟩, s6)
      | _ => do
        let (args, s6) ← argLoop [] s5
        pure (some ⟨name, hasRet, ret, args⟩, s6) : Res (Option Func × PS)) =
      .ok (some ⟨name, hasRet, ret, params.map GParam.ast⟩, ⟨.semi, k⟩) := by
  cases params with
  | nil =>
    show (do
      let s5 ← (PS.mk .ptl (.ptr :: .semi :: k)).next
      _) = _
    rw [next_cons' _ _ _ (by simp)]
    simp only [Res.bind_ok]
    rw [expect_cons _ _ _ (by simp)]
    rfl
  | cons p ps =>
    rw [paramsK_cons]
    rw [next_cons' _ _ _ p.hd_ne_bad]
    simp only [Res.bind_ok]
    have := p.hd_cases
    split
    · rename_i heq; exact absurd heq this.1
    · rename_i heq; exact absurd heq this.2
    · rw [argLoop_accept p ps h]
      simp

theorem parseInterfaceFun_accept (f : GFunc) (h : f.WF = true) (pre : Tok) (k : List Tok) :
    parseInterfaceFun ⟨pre, f.toksK k⟩ = .ok (some f.ast, ⟨.semi, k⟩) := by
  obtain ⟨ret, name, params⟩ := f
  have hp : params.all (fun p => p.ty.WF) = true := by
    simp only [GFunc.WF, Bool.and_eq_true] at h; exact h.2
  cases ret with
  | none =>
    show parseInterfaceFun ⟨pre, .kvoid :: .name name :: .ptl :: paramsK params k⟩ = _
    unfold parseInterfaceFun
    rw [next_cons' _ _ _ (by simp)]
    simp only [Res.bind_ok, if_true, Res.pure_eq]
    rw [expectName_cons]
    simp only [Res.bind_ok]
    rw [expect_cons _ _ _ (by simp)]
    simp only [Res.bind_ok]
    exact funParams_accept params hp name false none k
  | some t =>
    have ht : t.WF = true := by
      simp only [GFunc.WF, Bool.and_eq_true] at h; exact h.1
    show parseInterfaceFun ⟨pre, t.hd :: t.tlK (.name name :: .ptl :: paramsK params k)⟩ = _
    unfold parseInterfaceFun
    rw [next_cons' _ _ _ t.hd_ne_bad]
    simp only [Res.bind_ok]
    split
    · rename_i heq; exact absurd heq t.hd_ne_braceR
    · simp only [t.hd_ne_void, if_false, t.hd_startsType, Bool.not_true, Bool.false_eq_true]
      rw [parseType_accept t ht]
      simp only [Res.bind_ok, Res.pure_eq]
      rw [expectName_cons]
      simp only [Res.bind_ok]
      rw [expect_cons _ _ _ (by simp)]
      simp only [Res.bind_ok]
      exact funParams_accept params hp name true (some t.ast) k

theorem GFunc.toksK_length (f : GFunc) (k : List Tok) : k.length < (f.toksK k).length := by
  obtain ⟨ret, name, params⟩ := f
  have hp : k.length < (paramsK params k).length := by
    cases params with
    | nil => simp only [paramsK, List.length_cons]; omega
    | cons p ps =>
      rw [paramsK_cons]
      induction ps generalizing p with
      | nil =>
        have := p.tlK_length (.ptr :: .semi :: k)
        simp only [paramsTl, List.length_cons] at *; omega
      | cons p2 ps ih =>
        have h1 := ih p2
        have h2 := p.tlK_length (.comma :: p2.hd :: paramsTl p2 ps k)
        simp only [paramsTl, List.length_cons] at *; omega
  cases ret with
  | none => simp only [GFunc.toksK, List.length_cons]; omega
  | some t =>
    have := t.tlK_length (.name name :: .ptl :: paramsK params k)
    simp only [GFunc.toksK, GTy.toksK, List.length_cons] at *; omega

theorem funLoop_accept (fs : List GFunc) (h : fs.all GFunc.WF = true) (acc : List Func)
    (pre : Tok) (k : List Tok) :
    funLoop acc ⟨pre, funcsK fs (.braceR :: k)⟩ = .ok (acc ++ fs.map GFunc.ast, ⟨.braceR, k⟩) := by
  induction fs generalizing acc pre with
  | nil =>
    show funLoop acc ⟨pre, .braceR :: k⟩ = _
    rw [funLoop]
    rw [parseInterfaceFun_close]
    simp
  | cons f fs ih =>
    have hf : f.WF = true ∧ fs.all GFunc.WF = true := by simpa using h
    show funLoop acc ⟨pre, f.toksK (funcsK fs (.braceR :: k))⟩ = _
    rw [funLoop]
    rw [parseInterfaceFun_accept f hf.1]
    simp only [Res.bind_ok]
    rw [dif_pos (size_lt _ _ _ _ (f.toksK_length _))]
    rw [ih hf.2]
    simp

theorem parseInterface_accept (m : Module) (i : GInterface) (pre : Tok) (k : List Tok)
    (h1 : m.interfaces.any (fun x => x.name = i.name) = false)
    (h2 : i.funcs.all GFunc.WF = true) :
    parseInterface m ⟨pre, .name i.name :: .braceL :: funcsK i.funcs (.braceR :: .semi :: k)⟩ =
      .ok (GDecl.addTo m (.interface i), ⟨.semi, k⟩) := by
  unfold parseInterface
  rw [expectName_cons]
  simp only [Res.bind_ok, h1]
  rw [expect_cons _ _ _ (by simp)]
  simp only [Res.bind_ok]
  rw [funLoop_accept _ h2]
  simp only [Res.bind_ok]
  rw [expect_cons _ _ _ (by simp)]
  simp [GDecl.addTo]

/-! ### declarations, module, file -/

/-- first token and rest of a declaration -/
def GDecl.kw : GDecl → Tok
  | .enum _ => .kenum | .const _ => .kconst | .struct _ => .kstruct | .key _ => .kkey
  | .interface _ => .kinterface

def GDecl.tlK : GDecl → List Tok → List Tok
  | .enum e, k => .name e.name :: .braceL :: enumMemsK e.mems e.trailingComma (.semi :: k)
  | .const c, k => c.ty.toksK (.name c.name :: .eq :: c.lit.tok :: .semi :: k)
  | .struct s, k => .name s.name :: .braceL :: fieldsK s.fields (.braceR :: .semi :: k)
  | .key x, k => .sqL :: .name x.name :: .comma :: .name x.first :: keyMoreK x.more k
  | .interface i, k => .name i.name :: .braceL :: funcsK i.funcs (.braceR :: .semi :: k)

theorem GDecl.toksK_eq (d : GDecl) (k : List Tok) : d.toksK k = d.kw :: d.tlK k := by
  cases d <;> rfl

theorem GEnumMem.toksK_length (m : GEnumMem) (k : List Tok) : k.length < (m.toksK k).length := by
  obtain ⟨key, val⟩ := m
  cases val <;> simp only [GEnumMem.toksK, List.length_cons] <;> omega

theorem enumMemsK_length (ms : List GEnumMem) (tr : Bool) (k : List Tok) :
    k.length < (enumMemsK ms tr k).length := by
  induction ms with
  | nil => simp only [enumMemsK, List.length_cons]; omega
  | cons m ms ih =>
    cases ms with
    | nil =>
      simp only [enumMemsK]
      split
      · have := m.toksK_length (.comma :: .braceR :: k)
        simp only [List.length_cons] at *; omega
      · have := m.toksK_length (.braceR :: k)
        simp only [List.length_cons] at *; omega
    | cons m2 ms =>
      have := m.toksK_length (.comma :: enumMemsK (m2 :: ms) tr k)
      simp only [enumMemsK, List.length_cons] at *; omega

theorem fieldsK_length (fs : List GField) (k : List Tok) : k.length ≤ (fieldsK fs k).length := by
  induction fs with
  | nil => exact Nat.le_refl _
  | cons f fs ih =>
    have := f.toksK_length (fieldsK fs k)
    simp only [fieldsK]; omega

theorem funcsK_length (fs : List GFunc) (k : List Tok) : k.length ≤ (funcsK fs k).length := by
  induction fs with
  | nil => exact Nat.le_refl _
  | cons f fs ih =>
    have := f.toksK_length (funcsK fs k)
    simp only [funcsK]; omega

theorem keyMoreK_length (ms : List Bytes) (k : List Tok) : k.length < (keyMoreK ms k).length := by
  induction ms with
  | nil => simp only [keyMoreK, List.length_cons]; omega
  | cons m ms ih => simp only [keyMoreK, List.length_cons]; omega

theorem GDecl.tlK_length (d : GDecl) (k : List Tok) : k.length < (d.tlK k).length := by
  cases d with
  | enum e =>
    have := enumMemsK_length e.mems e.trailingComma (.semi :: k)
    simp only [GDecl.tlK, List.length_cons] at *; omega
  | const c =>
    have := c.ty.tlK_length (.name c.name :: .eq :: c.lit.tok :: .semi :: k)
    simp only [GDecl.tlK, GTy.toksK, List.length_cons] at *; omega
  | struct s =>
    have := fieldsK_length s.fields (.braceR :: .semi :: k)
    simp only [GDecl.tlK, List.length_cons] at *; omega
  | key x =>
    have := keyMoreK_length x.more k
    simp only [GDecl.tlK, List.length_cons] at *; omega
  | interface i =>
    have := funcsK_length i.funcs (.braceR :: .semi :: k)
    simp only [GDecl.tlK, List.length_cons] at *; omega

theorem segmentItem_accept (v : Variant) (m : Module) (d : GDecl) (h : d.WF m = true) (k : List Tok) :
    segmentItem v m ⟨d.kw, d.tlK k⟩ = .ok (d.addTo m, ⟨.semi, k⟩) := by
  cases d with
  | enum e =>
    simp only [GDecl.WF, Bool.and_eq_true, Bool.not_eq_true'] at h
    exact parseEnum_accept v m e _ k h.1
  | const c => exact parseConst_accept m c h _ k
  | struct s =>
    simp only [GDecl.WF, Bool.and_eq_true, Bool.not_eq_true'] at h
    exact parseStruct_accept m s _ k h.1.1 h.1.2 h.2
  | key x => exact parseHashKey_accept m x _ k
  | interface i =>
    simp only [GDecl.WF, Bool.and_eq_true, Bool.not_eq_true'] at h
    exact parseInterface_accept m i _ k h.1 h.2

theorem segmentLoop_accept (v : Variant) (ds : List GDecl) (m : Module) (h : declsWF m ds = true)
    (pre : Tok) (k : List Tok) :
    segmentLoop v m ⟨pre, declsK ds (.braceR :: .semi :: k)⟩ =
      .ok (ds.foldl GDecl.addTo m, ⟨.semi, k⟩) := by
  induction ds generalizing m pre with
  | nil =>
    show segmentLoop v m ⟨pre, .braceR :: .semi :: k⟩ = _
    rw [segmentLoop, next_cons' _ _ _ (by simp)]
    simp only [Res.bind_ok]
    rw [expect_cons _ _ _ (by simp)]
    rfl
  | cons d ds ih =>
    have hd : d.WF m = true ∧ declsWF (d.addTo m) ds = true := by
      simpa [declsWF] using h
    show segmentLoop v m ⟨pre, d.toksK (declsK ds (.braceR :: .semi :: k))⟩ = _
    rw [d.toksK_eq]
    rw [segmentLoop, next_cons' _ _ _ (by cases d <;> simp [GDecl.kw])]
    simp only [Res.bind_ok]
    split
    · rename_i heq; cases d <;> simp [GDecl.kw] at heq
    · rw [segmentItem_accept v m d hd.1]
      simp only [Res.bind_ok]
      rw [dif_pos (size_lt _ _ _ _ (by
        have := d.tlK_length (declsK ds (.braceR :: .semi :: k))
        simp only [List.length_cons]; omega))]
      rw [ih _ hd.2]
      rfl

theorem declsK_length (ds : List GDecl) (k : List Tok) : k.length ≤ (declsK ds k).length := by
  induction ds with
  | nil => exact Nat.le_refl _
  | cons d ds ih =>
    have := d.tlK_length (declsK ds k)
    simp only [declsK, d.toksK_eq, List.length_cons]; omega

/-- **acceptance at token level**: the parser reads the token sequence of every well-formed
program of the grammar as the syntax tree the program declares (both variants: a valid program
never reaches the D5 branch) -/
theorem parseTokens_accept (v : Variant) (p : Prog) (h : p.WF = true) :
    parseTokens v p.toks = .ok p.ast := by
  have hw : p.modName ≠ [] ∧ declsWF { name := p.modName } p.decls = true := by
    simpa [Prog.WF] using h
  unfold parseTokens Prog.toks
  rw [fileLoop, next_cons' _ _ _ (by simp)]
  simp only [Res.bind_ok]
  unfold parseModule
  rw [expectName_cons]
  simp only [Res.bind_ok]
  have hn : ¬ (({} : TarsFile).module.name ≠ []) := by simp
  rw [if_neg hn]
  unfold parseModuleSegment
  rw [expect_cons _ _ _ (by simp)]
  simp only [Res.bind_ok]
  have hseg := segmentLoop_accept v p.decls { name := p.modName } hw.2 .braceL []
  rw [show declsK p.decls [.braceR, .semi] = declsK p.decls (.braceR :: .semi :: []) from rfl]
  rw [show ({ ({} : TarsFile).module with name := p.modName } : Module) = { name := p.modName } from rfl]
  rw [hseg]
  simp only [Res.bind_ok, Res.pure_eq]
  rw [dif_pos (size_lt _ _ _ _ (by
    have := declsK_length p.decls [.braceR, .semi]
    simp only [List.length_cons, List.length_nil] at *; omega))]
  rw [fileLoop]
  rfl

end Tars.Idl
