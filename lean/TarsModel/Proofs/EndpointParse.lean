/-
  `parse (render d) = d.endpoint`, order independence, keys, panics of the as-found variant.
-/
import TarsModel.Proofs.EndpointFlags
import TarsModel.Proofs.EndpointUnicode

namespace Tars.Endpoint
open Tars

/-! ## well-formed descriptions -/

/-- host / bind values are tokens in the sense of `P` -/
def Opt.StrOk (P : Bytes → Prop) : Opt → Prop
  | .h x => P x
  | .b x => P x
  | _ => True

/-- a written option: non-empty blank runs where the spelling uses them, admissible value -/
def Item.WF (P : Bytes → Prop) (it : Item) : Prop :=
  Blank it.sep ∧ it.sep ≠ [] ∧
  ((it.form = .plain ∨ it.form = .dd) → Blank it.sep2 ∧ it.sep2 ≠ []) ∧
  it.opt.IntOk ∧ it.opt.StrOk P

/-- a description in the sense of DESIGN.md Appendix C; `P` says what a host / bind token is -/
def Desc.WF (P : Bytes → Prop) (d : Desc) : Prop := (∀ it ∈ d.items, it.WF P) ∧ Blank d.trail

theorem Item.WF.mono {P Q : Bytes → Prop} (hpq : ∀ t, P t → Q t) {it : Item} (h : it.WF P) : it.WF Q := by
  obtain ⟨h1, h2, h3, h4, h5⟩ := h
  refine ⟨h1, h2, h3, h4, ?_⟩
  cases ho : it.opt <;> rw [ho] at h5 <;> first | exact hpq _ h5 | trivial

theorem Desc.WF.mono {P Q : Bytes → Prop} (hpq : ∀ t, P t → Q t) {d : Desc} (h : d.WF P) : d.WF Q :=
  ⟨fun it hit => (h.1 it hit).mono hpq, h.2⟩

theorem Opt.text_tok (o : Opt) (h : o.StrOk TokU) : TokU o.text := by
  cases o <;> first | exact h | exact (fmtInt_tok _).tokU

theorem letter_ascii (fl : Flag) : isAsciiSpace fl.letter = false ∧ fl.letter.val < 128 := by
  cases fl <;> decide

theorem tok_single (c : Byte) (h : isAsciiSpace c = false ∧ c.val < 128) : Tok [c] :=
  ⟨by simp, fun b hb => by rw [List.mem_singleton] at hb; subst hb; exact h⟩

theorem tok_cons (c : Byte) (t : Bytes) (h : isAsciiSpace c = false ∧ c.val < 128) (ht : Tok t) : Tok (c :: t) :=
  ⟨by simp, fun b hb => by
    rw [List.mem_cons] at hb
    rcases hb with hb | hb
    · subst hb; exact h
    · exact ht.2 b hb⟩

theorem Proto.tok (p : Proto) : Tok p.bytes := by
  cases p <;>
    exact tok_cons _ _ (by decide) (tok_cons _ _ (by decide) (tok_single _ (by decide)))

theorem flagTok_tok (f : Form) (fl : Flag) : Tok (f.dashes ++ [fl.letter]) := by
  have hl := tok_single _ (letter_ascii fl)
  cases f
  · exact tok_cons _ _ (by decide) hl
  · exact tok_cons _ _ (by decide) (tok_cons _ _ (by decide) hl)
  · exact tok_cons _ _ (by decide) hl
  · exact tok_cons _ _ (by decide) (tok_cons _ _ (by decide) hl)

theorem tok_append_eq (a t : Bytes) (ha : Tok a) (ht : TokU t) : TokU (a ++ B 61 :: t) := by
  have h1 : Tok (a ++ [B 61]) := by
    refine ⟨by simp, ?_⟩
    intro b hb
    rw [List.mem_append, List.mem_singleton] at hb
    rcases hb with hb | hb
    · exact ha.2 b hb
    · subst hb; decide
  have e : a ++ B 61 :: t = (a ++ [B 61]) ++ t := by simp
  rw [e]
  exact tokU_append _ _ h1 ht.2

theorem Item.pairs_ok (it : Item) (h : it.WF TokU) : ∀ p ∈ it.pairs, Blank p.1 ∧ p.1 ≠ [] ∧ TokU p.2 := by
  obtain ⟨hb, hne, h2, _, hs⟩ := h
  have htxt := Opt.text_tok it.opt hs
  have hfl := flagTok_tok it.form it.opt.flag
  intro p hp
  cases hf : it.form <;> simp only [Item.pairs, hf, List.mem_cons, List.not_mem_nil, or_false] at hp
  · rcases hp with hp | hp
    · subst hp; rw [hf] at hfl; exact ⟨hb, hne, hfl.tokU⟩
    · subst hp; exact ⟨(h2 (Or.inl hf)).1, (h2 (Or.inl hf)).2, htxt⟩
  · rcases hp with hp | hp
    · subst hp; rw [hf] at hfl; exact ⟨hb, hne, hfl.tokU⟩
    · subst hp; exact ⟨(h2 (Or.inr hf)).1, (h2 (Or.inr hf)).2, htxt⟩
  · subst hp; rw [hf] at hfl; exact ⟨hb, hne, tok_append_eq _ _ hfl htxt⟩
  · subst hp; rw [hf] at hfl; exact ⟨hb, hne, tok_append_eq _ _ hfl htxt⟩

theorem Desc.pairs_ok (d : Desc) (h : d.WF TokU) :
    ∀ p ∈ d.items.flatMap Item.pairs, Blank p.1 ∧ p.1 ≠ [] ∧ TokU p.2 := by
  intro p hp
  rw [List.mem_flatMap] at hp
  obtain ⟨it, hit, hp⟩ := hp
  exact Item.pairs_ok it (h.1 it hit) p hp

/-! ## the main lemma -/

theorem fields_render (d : Desc) (h : d.WF TokU) :
    fields (render d) = d.proto.bytes :: (d.items.flatMap Item.pairs).map (·.2) :=
  fieldsU_render _ _ _ d.proto.tok.tokU (d.pairs_ok h) h.2

/-- an ASCII token is its own single field -/
theorem Tok.fields_single {t : Bytes} (h : Tok t) : fields t = [t] := by
  have := fields_pairs t [] [] h (by simp) Blank.nil
  simpa [renderPairs] using this

theorem Proto.length (p : Proto) : p.bytes.length = Consts.epProtoLen := by cases p <;> rfl

theorem take_proto (p : Proto) (r : Bytes) : (p.bytes ++ r).take Consts.epProtoLen = p.bytes := by
  rw [← p.length]; simp

/-- parsing the rendering of a description yields the endpoint it denotes (both variants) -/
theorem parse_render (var : Variant) (d : Desc) (h : d.WF TokU) : parse var (render d) = .ok d.endpoint := by
  have hf := fields_render d h
  have hlen : ¬ (render d).length < Consts.epProtoLen := by
    unfold render
    rw [List.length_append, List.length_append, d.proto.length]; omega
  have htake : (render d).take Consts.epProtoLen = d.proto.bytes := by
    unfold render; rw [List.append_assoc]; exact take_proto _ _
  have hargs := parseArgs_items d.items defaultFlags (fun it hit => (h.1 it hit).2.2.2.1)
  have hcore : parseCore (render d) = .ok d.endpoint := by
    unfold parseCore
    rw [if_neg hlen, hf]
    simp only [htake, hargs]
    rfl
  cases var
  · exact hcore
  · unfold parse
    simp only
    rw [if_neg (by rw [hf]; simp [hlen]), hcore]

/-! ## order independence -/

theorem get_apply (st : Flags) (o : Opt) (k : Flag) :
    (st.apply o).get k = if o.flag = k then o.val else st.get k := by
  cases o <;> cases k <;> rfl

theorem Flags.ext_get (a b : Flags) (h : ∀ k, a.get k = b.get k) : a = b := by
  cases a; cases b
  have h1 := h .host; have h2 := h .port; have h3 := h .timeout; have h4 := h .grid; have h5 := h .qos
  have h6 := h .weight; have h7 := h .weightType; have h8 := h .authType; have h9 := h .bind
  simp only [Flags.get, Val.str.injEq, Val.int.injEq] at h1 h2 h3 h4 h5 h6 h7 h8 h9
  subst h1 h2 h3 h4 h5 h6 h7 h8 h9
  rfl

theorem get_foldl_absent (os : List Opt) (st : Flags) (k : Flag) (h : ∀ o ∈ os, o.flag ≠ k) :
    (os.foldl Flags.apply st).get k = st.get k := by
  induction os generalizing st with
  | nil => rfl
  | cons o os ih =>
    rw [List.foldl_cons, ih _ (fun x hx => h x (by simp [hx])), get_apply, if_neg (h o (by simp))]

theorem get_foldl_present (os : List Opt) (st : Flags) (o : Opt) (hm : o ∈ os)
    (nd : (os.map Opt.flag).Nodup) : (os.foldl Flags.apply st).get o.flag = o.val := by
  induction os generalizing st with
  | nil => cases hm
  | cons x os ih =>
    rw [List.map_cons, List.nodup_cons] at nd
    rw [List.foldl_cons]
    rw [List.mem_cons] at hm
    rcases hm with hm | hm
    · subst hm
      rw [get_foldl_absent os _ _ ?_, get_apply, if_pos rfl]
      intro y hy hyk
      exact nd.1 (by rw [← hyk]; exact List.mem_map_of_mem hy)
    · exact ih _ hm nd.2

theorem flags_opts (d : Desc) : d.flags = d.opts.foldl Flags.apply defaultFlags := by
  unfold Desc.flags Desc.opts
  rw [List.foldl_map]

/-- with every option written at most once the variables do not depend on the order -/
theorem foldl_perm (os os' : List Opt) (st : Flags) (hp : os.Perm os') (nd : (os.map Opt.flag).Nodup) :
    os.foldl Flags.apply st = os'.foldl Flags.apply st := by
  have nd' : (os'.map Opt.flag).Nodup := (hp.map Opt.flag).nodup_iff.mp nd
  apply Flags.ext_get
  intro k
  by_cases hk : ∃ o ∈ os, o.flag = k
  · obtain ⟨o, ho, hok⟩ := hk
    subst hok
    rw [get_foldl_present os st o ho nd, get_foldl_present os' st o (hp.mem_iff.mp ho) nd']
  · have h1 : ∀ o ∈ os, o.flag ≠ k := fun o ho hok => hk ⟨o, ho, hok⟩
    have h2 : ∀ o ∈ os', o.flag ≠ k := fun o ho hok => hk ⟨o, hp.mem_iff.mpr ho, hok⟩
    rw [get_foldl_absent os st k h1, get_foldl_absent os' st k h2]

/-! ## keys -/

theorem wrapS_zero : wrapS 32 0 = 0 := by decide

/-- transport kind and protocol name produced by `finish` for the three protocols -/
theorem finish_proto (p : Proto) (fl : Flags) :
    (finish p.bytes fl).proto = (if (finish p.bytes fl).istcp = (Consts.epUDP : Int) then sUdp else sTcp) := by
  cases p <;> simp [finish, Proto.bytes, sTcp, sUdp, sSsl]

theorem finish_key (proto : Bytes) (fl : Flags) :
    (finish proto fl).key = (finish proto fl).proto ++ sDashH ++ (finish proto fl).host ++ sDashP ++
      fmtInt (finish proto fl).port ++ sDashT ++ fmtInt (finish proto fl).timeout := rfl

/-- an `EndpointF` that agrees with a parsed endpoint on host, port, timeout and transport kind
    gets the same cache key -/
theorem key_registry (p : Proto) (fl : Flags) (f : EndpointF)
    (hh : f.host = (finish p.bytes fl).host) (hp : f.port = (finish p.bytes fl).port)
    (ht : f.timeout = (finish p.bytes fl).timeout) (hi : f.istcp = (finish p.bytes fl).istcp) :
    (tars2endpoint f).key = (finish p.bytes fl).key := by
  rw [finish_key, finish_proto]
  simp only [tars2endpoint, Endpoint.string, hh, hp, ht, hi]

/-- every string that starts with one of the three protocol names is parsed (no panic, guard not
    taken), by both variants, to `finish` of that protocol -/
theorem parse_of_proto (var : Variant) (s : Bytes) (p : Proto) (hp : s.take Consts.epProtoLen = p.bytes) :
    ∃ fl, parse var s = .ok (finish p.bytes fl) := by
  have hlen : ¬ s.length < Consts.epProtoLen := by
    intro hl
    have := congrArg List.length hp
    rw [List.length_take, p.length] at this
    omega
  have hne : fields s ≠ [] := by
    cases s with
    | nil => simp at hlen
    | cons c r =>
      have hc : c ∈ p.bytes := by rw [← hp]; simp [List.take]
      have := p.tok.2 c hc
      exact fields_ne_nil c r this.1 this.2
  have hcore : ∃ fl, parseCore s = .ok (finish p.bytes fl) := by
    unfold parseCore
    rw [if_neg hlen]
    cases hf : fields s with
    | nil => exact absurd hf hne
    | cons a args => exact ⟨(parseArgs args defaultFlags).1, by simp only [hp]⟩
  cases var
  · exact hcore
  · unfold parse
    simp only
    rw [if_neg (by simp [hlen, hne])]
    exact hcore

/-! ## the as-found variant -/

theorem asFound_panics_iff (s : Bytes) :
    (∃ site, parse .asFound s = .panic site) ↔ (s.length < Consts.epProtoLen ∨ fields s = []) := by
  unfold parse parseCore
  simp only
  constructor
  · intro ⟨site, h⟩
    by_cases hl : s.length < Consts.epProtoLen
    · exact Or.inl hl
    · rw [if_neg hl] at h
      cases hf : fields s with
      | nil => exact Or.inr rfl
      | cons a args => rw [hf] at h; cases h
  · intro h
    by_cases hl : s.length < Consts.epProtoLen
    · exact ⟨_, by rw [if_pos hl]⟩
    · rcases h with h | h
      · exact absurd h hl
      · exact ⟨_, by rw [if_neg hl, h]⟩

theorem repaired_total (s : Bytes) : ∃ e, parse .repaired s = .ok e := by
  unfold parse
  simp only
  by_cases hg : s.length < Consts.epProtoLen ∨ fields s = []
  · exact ⟨_, by rw [if_pos hg]⟩
  · rw [if_neg hg]
    unfold parseCore
    rw [if_neg (fun hl => hg (Or.inl hl))]
    cases hf : fields s with
    | nil => exact absurd hf (fun hf => hg (Or.inr hf))
    | cons a args => exact ⟨_, rfl⟩

theorem variants_agree (s : Bytes) (h : ¬ (s.length < Consts.epProtoLen ∨ fields s = [])) :
    parse .repaired s = parse .asFound s := by
  unfold parse
  simp only
  rw [if_neg h]

end Tars.Endpoint
