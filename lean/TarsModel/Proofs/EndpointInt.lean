/-
  `strconv.ParseInt(s, 0, 64)` model on `%d` renderings: parse ∘ format = id on the int64 range.
-/
import TarsModel.Proofs.EndpointFields

namespace Tars.Endpoint
open Tars

theorem natDigits_lt (n : Nat) (h : n < 10) : natDigits n = [byte (48 + n)] := by
  rw [natDigits]; simp [h]

theorem natDigits_ge (n : Nat) (h : ¬ n < 10) :
    natDigits n = natDigits (n / 10) ++ [byte (48 + n % 10)] := by
  rw [natDigits]; simp [h]

theorem digit_val (d : Nat) (h : d < 10) : (byte (48 + d)).val = 48 + d := by
  simp only [byte_val]; omega

/-- every byte of a decimal rendering is an ASCII digit -/
theorem natDigits_digits (n : Nat) : ∀ b ∈ natDigits n, 48 ≤ b.val ∧ b.val ≤ 57 := by
  induction n using Nat.strongRecOn with
  | _ n ih =>
    by_cases h : n < 10
    · rw [natDigits_lt n h]
      intro b hb
      simp only [List.mem_singleton] at hb
      subst hb
      rw [digit_val n h]; omega
    · rw [natDigits_ge n h]
      intro b hb
      rw [List.mem_append] at hb
      cases hb with
      | inl hb => exact ih (n / 10) (by omega) b hb
      | inr hb =>
        simp only [List.mem_singleton] at hb
        subst hb
        rw [digit_val (n % 10) (by omega)]; omega

theorem natDigits_ne_nil (n : Nat) : natDigits n ≠ [] := by
  by_cases h : n < 10
  · rw [natDigits_lt n h]; simp
  · rw [natDigits_ge n h]; simp

/-- no leading zero except for 0 itself -/
theorem natDigits_head (n : Nat) (hn : 0 < n) : ∃ c r, natDigits n = c :: r ∧ c.val ≠ 48 := by
  induction n using Nat.strongRecOn with
  | _ n ih =>
    by_cases h : n < 10
    · refine ⟨byte (48 + n), [], natDigits_lt n h, ?_⟩
      rw [digit_val n h]; omega
    · obtain ⟨c, r, hc, hv⟩ := ih (n / 10) (by omega) (by omega)
      exact ⟨c, r ++ [byte (48 + n % 10)], by rw [natDigits_ge n h, hc]; rfl, hv⟩

theorem uintLoop_append (base : Nat) (b0 : Bool) (a b : Bytes) (n : Nat) (us : Bool) :
    uintLoop base b0 (a ++ b) n us =
      match uintLoop base b0 a n us with
      | .done n' us' => uintLoop base b0 b n' us'
      | .syntaxErr => .syntaxErr
      | .rangeErr => .rangeErr := by
  induction a generalizing n us with
  | nil => simp [uintLoop]
  | cons c cs ih =>
    simp only [List.cons_append, uintLoop]
    split
    · exact ih _ _
    · split
      · rfl
      · split
        · rfl
        · split
          · rfl
          · split
            · rfl
            · exact ih _ _

theorem digitVal_digit (c : Nat) (h1 : 48 ≤ c) (h2 : c ≤ 57) : digitVal c = some (c - 48) := by
  unfold digitVal; simp [h1, h2]

/-- one decimal digit step of the loop -/
theorem uintLoop_digit (d n : Nat) (us : Bool) (hd : d < 10) (hn : n * 10 + d ≤ maxUint64) :
    uintLoop 10 true [byte (48 + d)] n us = .done (n * 10 + d) us := by
  have hv := digit_val d hd
  unfold maxUint64 at hn
  simp only [uintLoop, hv, digitVal_digit (48 + d) (by omega) (by omega)]
  have e1 : ¬ (48 + d = 95 ∧ True) := by simp; omega
  have e2 : ¬ (48 + d - 48 ≥ 10) := by omega
  have e3 : ¬ (n ≥ maxUint64 / 10 + 1) := by unfold maxUint64; omega
  have e4 : ¬ (n * 10 + (48 + d - 48) > maxUint64) := by unfold maxUint64; omega
  rw [if_neg e1]
  simp only [if_neg e2, if_neg e3, if_neg e4]
  congr 1
  omega

/-- the digit loop reads back a decimal rendering -/
theorem uintLoop_natDigits (n : Nat) (hn : n ≤ maxUint64) :
    uintLoop 10 true (natDigits n) 0 false = .done n false := by
  induction n using Nat.strongRecOn with
  | _ n ih =>
    by_cases h : n < 10
    · rw [natDigits_lt n h]
      have := uintLoop_digit n 0 false h (by omega)
      simpa using this
    · rw [natDigits_ge n h, uintLoop_append, ih (n / 10) (by omega) (by omega)]
      simp only
      rw [uintLoop_digit (n % 10) (n / 10) false (by omega) (by omega)]
      congr 1
      omega

theorem basePrefix_natDigits (n : Nat) (hn : 0 < n) : basePrefix (natDigits n) = (10, natDigits n) := by
  obtain ⟨c, r, hc, hv⟩ := natDigits_head n hn
  rw [hc]
  unfold basePrefix
  cases r with
  | nil => simp [hv]
  | cons c1 r1 =>
    cases r1 with
    | nil => simp [hv]
    | cons c2 r2 => simp [hv]

/-- `ParseUint(strconv.Itoa(n), 0, 64) = n` -/
theorem parseUint0_natDigits (n : Nat) (hn : n ≤ maxUint64) : parseUint0 (natDigits n) = .ok n := by
  by_cases h0 : n = 0
  · subst h0
    rw [natDigits_lt 0 (by omega)]
    decide
  · unfold parseUint0
    rw [if_neg (natDigits_ne_nil n)]
    rw [basePrefix_natDigits n (by omega)]
    simp only
    rw [uintLoop_natDigits n hn]
    simp

/-- `ParseInt(fmt.Sprint(v), 0, 64) = v` for every int64 -/
theorem parseInt_fmtInt (v : Int) (hlo : -(2 : Int) ^ 63 ≤ v) (hhi : v < (2 : Int) ^ 63) :
    parseInt (fmtInt v) = (v, none) := by
  unfold fmtInt
  by_cases hneg : v < 0
  · rw [if_pos hneg]
    have hle : v.natAbs ≤ maxUint64 := by unfold maxUint64; omega
    have hu := parseUint0_natDigits v.natAbs hle
    unfold parseInt
    simp only [decide_true, or_true, if_true, hu]
    have e1 : ¬ (v.natAbs > 2 ^ 63) := by omega
    simp [e1]
    omega
  · rw [if_neg hneg]
    have hle : v.toNat ≤ maxUint64 := by unfold maxUint64; omega
    have hu := parseUint0_natDigits v.toNat hle
    obtain ⟨c, r, hcr⟩ : ∃ c r, natDigits v.toNat = c :: r := by
      cases hd : natDigits v.toNat with
      | nil => exact absurd hd (natDigits_ne_nil _)
      | cons c r => exact ⟨c, r, rfl⟩
    have hc := natDigits_digits v.toNat c (by rw [hcr]; simp)
    rw [hcr] at hu
    rw [hcr]
    unfold parseInt
    have n43 : ¬ (c.val = 43) := by omega
    have n45 : ¬ (c.val = 45) := by omega
    have e1 : ¬ (9223372036854775808 ≤ v.toNat) := by omega
    simp [n43, n45, hu, e1]
    omega

/-- a `%d` rendering is a blank-free ASCII token -/
theorem fmtInt_tok (v : Int) : Tok (fmtInt v) := by
  have hd : ∀ n, ∀ b ∈ natDigits n, isAsciiSpace b = false ∧ b.val < 128 := by
    intro n b hb
    have := natDigits_digits n b hb
    unfold isAsciiSpace
    simp only [Bool.or_eq_false_iff, Bool.and_eq_false_iff, decide_eq_false_iff_not]
    omega
  unfold fmtInt
  split
  · refine ⟨by simp, ?_⟩
    intro b hb
    rw [List.mem_cons] at hb
    cases hb with
    | inl hb => subst hb; unfold isAsciiSpace; simp
    | inr hb => exact hd _ b hb
  · exact ⟨natDigits_ne_nil _, hd _⟩

end Tars.Endpoint
