/-
  C17 helper lemmas: the stack machine of `InitFromBytes` on the token stream of a grammar document
  computes `semItems` (for both variants; the as-found variant needs every line to be shorter than
  the scanner's default limit).
-/
import TarsModel.Proofs.ConfSem

namespace Tars.Conf
open Tars

/-! ## lengths -/

theorem le_foldr_max (xs : List Nat) (b : Nat) : b ≤ xs.foldr Nat.max b ∧ ∀ x ∈ xs, x ≤ xs.foldr Nat.max b := by
  induction xs with
  | nil => simp
  | cons a xs ih =>
    simp only [List.foldr_cons, List.mem_cons]
    refine ⟨Nat.le_trans ih.1 (Nat.le_max_right _ _), ?_⟩
    intro x hx
    rcases hx with h | h
    · subst h; exact Nat.le_max_left _ _
    · exact Nat.le_trans (ih.2 x h) (Nat.le_max_right _ _)

theorem Text.line_le_render (t : Text) : t.tail.length ≤ t.render.length ∧ ∀ l ∈ t.lines, l.text.length ≤ t.render.length := by
  obtain ⟨ls, tail⟩ := t
  simp only [Text.render]
  induction ls with
  | nil => simp
  | cons a ls ih =>
    simp only [List.map_cons, List.flatten_cons, List.length_append, List.mem_cons] at ih ⊢
    refine ⟨by omega, ?_⟩
    intro l hl
    rcases hl with h | h
    · subst h; omega
    · have := ih.2 l h; omega

/-- the bound on line lengths under which a variant's scanner reads every line -/
def textBound (v : Variant) (t : Text) : Prop :=
  v = .asFound → (t.lines.map (fun l => l.text.length)).foldr Nat.max t.tail.length < maxScanTokenSize

theorem textBound_lines (v : Variant) (t : Text) (hb : textBound v t) :
    t.tail.length < scanMax v t.render ∧ ∀ l ∈ t.lines, l.text.length < scanMax v t.render := by
  cases v with
  | repaired =>
    have := t.line_le_render
    simp only [scanMax]
    exact ⟨by omega, fun l hl => by have := this.2 l hl; omega⟩
  | asFound =>
    have hb := hb rfl
    have := le_foldr_max (t.lines.map (fun l => l.text.length)) t.tail.length
    simp only [scanMax]
    refine ⟨by omega, fun l hl => ?_⟩
    have := this.2 l.text.length (List.mem_map.mpr ⟨l, hl, rfl⟩)
    omega

/-! ## one text -/

theorem run_chardata (v : Variant) (t : Text) (hwf : t.wf = true) (hb : textBound v t)
    (ts : List Token) (key : Txt) (cur : Elem) (rest : List Frame) :
    run v (.chardata t.render :: ts) (⟨key, cur⟩ :: rest) = run v ts (⟨key, t.lines.foldl semLine cur⟩ :: rest) := by
  simp only [Text.wf, Bool.and_eq_true] at hwf
  obtain ⟨hls, htail⟩ := hwf
  have hls : ∀ l ∈ t.lines, l.wf = true := fun l hl => List.all_eq_true.mp hls l hl
  have hbound := textBound_lines v t hb
  have hnlb : inSet blankSet nlCh = false := by decide
  have hcrb : inSet blankSet crCh = false := by decide
  have hsc : scanLines (scanMax v t.render) t.render [] []
      = (t.lines.map Line.text ++ (if t.tail = [] then [] else [t.tail]), false) := by
    have e : t.render = ((t.lines.map Line.text).map (fun l => l ++ [nlCh])).flatten ++ t.tail := by
      simp [Text.render, List.map_map, Function.comp_def]
    have := scan_text (scanMax v t.render) (t.lines.map Line.text) t.tail []
      (by
        intro x hx
        obtain ⟨l, hl, rfl⟩ := List.mem_map.mp hx
        have := Line.wf_text_clean l (hls l hl)
        exact ⟨this.1, this.2, hbound.2 l hl⟩)
      ⟨isWs_no _ htail _ hnlb, isWs_no _ htail _ hcrb, hbound.1⟩
    rw [← e] at this
    simpa using this
  rw [run]
  simp only [hsc, Bool.false_and, Bool.false_eq_true, if_false, List.foldl_append]
  rw [foldl_procLine_wf _ _ hls]
  by_cases ht : t.tail = []
  · simp [ht]
  · simp [ht, procLine_blank t.tail _ (isWs_allIn _ htail)]

/-! ## the machine on a document -/

mutual
/-- bound on the line lengths of a document for a variant -/
def itemBound (v : Variant) : Item → Prop
  | .text t => textBound v t
  | .dom _ body => itemsBound v body
def itemsBound (v : Variant) : List Item → Prop
  | [] => True
  | i :: is => itemBound v i ∧ itemsBound v is
end

theorem tokens_text_empty (t : Text) (h : t.render.isEmpty = true) : t.lines = [] := by
  obtain ⟨ls, tail⟩ := t
  cases ls with
  | nil => rfl
  | cons l ls => simp [Text.render] at h

mutual
theorem run_item (v : Variant) : ∀ (i : Item), i.wf = true → itemBound v i →
    ∀ (ts : List Token) (key : Txt) (cur : Elem) (rest : List Frame), cur.ok = true →
    run v (i.tokens ++ ts) (⟨key, cur⟩ :: rest) = run v ts (⟨key, semItem i cur⟩ :: rest)
  | .text t, hwf, hb, ts, key, cur, rest, _ => by
    simp only [Item.wf] at hwf
    simp only [itemBound] at hb
    by_cases he : t.render.isEmpty = true
    · simp [Item.tokens, he, semItem, tokens_text_empty t he]
    · simp only [Item.tokens, he, Bool.false_eq_true, if_false, List.cons_append, List.nil_append, semItem]
      exact run_chardata v t hwf hb ts key cur rest
  | .dom n body, hwf, hb, ts, key, cur, rest, hok => by
    simp only [Item.wf] at hwf
    simp only [itemBound] at hb
    have e : (Item.dom n body).tokens ++ ts = .start n :: (tokensL body ++ (.fin n :: ts)) := by
      simp [Item.tokens]
    rw [e, run, semItem_dom]
    have hbase := baseOf_ok cur n hok
    cases hf : cur.findChild n with
    | some child =>
      have hb' : baseOf cur n = child := by simp [baseOf, hf]
      rw [hb'] at hbase
      simp only []
      rw [run_items v body hwf hb (.fin n :: ts) n child (⟨key, cur⟩ :: rest) hbase.2, run]
      rw [if_neg (by rw [semItems_name, hbase.1]; simp), hb']
    | none =>
      have hb' : baseOf cur n = newElem .node n := by simp [baseOf, hf]
      rw [hb'] at hbase
      simp only []
      rw [run_items v body hwf hb (.fin n :: ts) n (newElem .node n) _ hbase.2, run]
      rw [if_neg (by rw [semItems_name, hbase.1]; simp), hb']
      simp only [addChild_addChild]
theorem run_items (v : Variant) : ∀ (is : List Item), wfL is = true → itemsBound v is →
    ∀ (ts : List Token) (key : Txt) (cur : Elem) (rest : List Frame), cur.ok = true →
    run v (tokensL is ++ ts) (⟨key, cur⟩ :: rest) = run v ts (⟨key, semItems is cur⟩ :: rest)
  | [], _, _, ts, key, cur, rest, _ => by simp [tokensL, semItems]
  | i :: is, hwf, hb, ts, key, cur, rest, hok => by
    simp only [wfL, Bool.and_eq_true] at hwf
    simp only [itemsBound] at hb
    rw [tokensL, List.append_assoc, run_item v i hwf.1 hb.1 _ key cur rest hok,
      run_items v is hwf.2 hb.2 ts key _ rest (semItem_ok i cur hok), semItems]
end

mutual
theorem itemBound_repaired : ∀ (i : Item), itemBound .repaired i
  | .text t => by simp [itemBound, textBound]
  | .dom n body => by simpa [itemBound] using itemsBound_repaired body
theorem itemsBound_repaired : ∀ (is : List Item), itemsBound .repaired is
  | [] => by simp [itemsBound]
  | i :: is => by simpa [itemsBound] using ⟨itemBound_repaired i, itemsBound_repaired is⟩
end

/-- `InitFromBytes` on the token stream of a grammar document, on a root satisfying the invariant -/
theorem initFrom_tokens (v : Variant) (d : List Item) (hwf : wfL d = true) (hb : itemsBound v d)
    (root0 : Elem) (hok : root0.ok = true) :
    initFrom v root0 ⟨tokensL d, false⟩ = .ok (semItems d root0) := by
  unfold initFrom
  have := run_items v d hwf hb [] [] root0 [] hok
  simp only [List.append_nil] at this
  rw [this, run]
  simp [plug]

end Tars.Conf
