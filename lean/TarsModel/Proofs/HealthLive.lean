/-
  Proofs/HealthLive.lean — what one run of `checkStatus` does to a failing endpoint, and frame
  facts about the actions (who can change `status`, `sel`, `stamp`, `reg`, `now`).
-/
import TarsModel.Proofs.HealthInvA

namespace Tars.Health
open Tars

theorem checkOne_now (conn : List Nat) (s : Mgr) (x : Nat) : (checkOne conn s x).now = s.now := by
  unfold checkOne; simp only []; repeat' split
  all_goals rfl

theorem checkOne_has (conn : List Nat) (s : Mgr) (x : Nat) : (checkOne conn s x).has = s.has := by
  unfold checkOne; simp only []; repeat' split
  all_goals rfl

theorem checkOne_reg (conn : List Nat) (s : Mgr) (x : Nat) : (checkOne conn s x).reg = s.reg := by
  unfold checkOne; simp only []; repeat' split
  all_goals rfl

theorem checkOne_stamp (conn : List Nat) (s : Mgr) (x : Nat) : (checkOne conn s x).stamp = s.stamp := by
  unfold checkOne; simp only []; repeat' split
  all_goals rfl

theorem checkOne_inflight (conn : List Nat) (s : Mgr) (x : Nat) : (checkOne conn s x).inflight = s.inflight := by
  unfold checkOne; simp only []; repeat' split
  all_goals rfl

theorem checkOne_recs_other (conn : List Nat) (s : Mgr) (x ep : Nat) (hne : ep ≠ x) :
    (checkOne conn s x).recs ep = s.recs ep := by
  unfold checkOne; simp only []; repeat' split
  all_goals simp [enqueue, takeOut, emit, setRec, upd_apply, hne]

/-- the record of the endpoint `checkOne` looks at is the result of `checkActive` -/
theorem checkOne_recs_self (conn : List Nat) (s : Mgr) (x : Nat) (hh : s.has x = true) :
    (checkOne conn s x).recs x = (checkActive s.now (conn.contains x) (s.recs x)).r := by
  unfold checkOne; rw [if_pos hh]; simp only []; repeat' split
  all_goals simp [enqueue, takeOut, emit, setRec]

theorem checkOne_status_false (conn : List Nat) (s : Mgr) (x ep : Nat) (h : (s.recs ep).status = false) :
    ((checkOne conn s x).recs ep).status = false := by
  by_cases hx : ep = x
  · subst hx
    cases hh : s.has ep
    · unfold checkOne; simp [hh, h]
    · rw [checkOne_recs_self conn s ep hh]
      exact (checkActive_status_false _ _ _ h).1
  · rw [checkOne_recs_other conn s x ep hx]; exact h

theorem foldl_checkOne_status_false (conn : List Nat) (l : List Nat) (s : Mgr) (ep : Nat)
    (h : (s.recs ep).status = false) : ((l.foldl (checkOne conn) s).recs ep).status = false := by
  induction l generalizing s with
  | nil => exact h
  | cons x xs ih => exact ih _ (checkOne_status_false conn s x ep h)

/-- an open adapter that is blocked already, or has `fainN` consecutive failures and no success for
`failInterval` seconds, is blocked after `checkStatus` went through a list containing it -/
theorem foldl_checkOne_blocks (conn : List Nat) (l : List Nat) (s : Mgr) (ep : Nat) (hmem : ep ∈ l)
    (hh : s.has ep = true) (hc : (s.recs ep).closed = false)
    (hcond : (s.recs ep).status = true →
      (Consts.healthFailInterval : Int) ≤ s.now - (s.recs ep).lastSuccessTime ∧
      (Consts.healthFainN : Int) ≤ (s.recs ep).lastFailCount) :
    ((l.foldl (checkOne conn) s).recs ep).status = false := by
  induction l generalizing s with
  | nil => cases hmem
  | cons x xs ih =>
    rw [List.foldl_cons]
    by_cases hx : ep = x
    · subst hx
      apply foldl_checkOne_status_false
      rw [checkOne_recs_self conn s ep hh]
      cases hst : (s.recs ep).status
      · exact (checkActive_status_false _ _ _ hst).1
      · have hl := checkActive_live s.now (conn.contains ep) (s.recs ep) hc hst (hcond hst).1 (hcond hst).2
        exact (checkActive_first _ _ _ hl).2.1
    · have hm : ep ∈ xs := by
        rcases List.mem_cons.mp hmem with h1 | h1
        · exact absurd h1 hx
        · exact h1
      apply ih _ hm
      · rw [checkOne_has]; exact hh
      · rw [checkOne_recs_other conn s x ep hx]; exact hc
      · rw [checkOne_recs_other conn s x ep hx, checkOne_now]; exact hcond

theorem checkStatus_blocks (conn : List Nat) {s : Mgr} (h : InvA s) (ep : Nat) (hh : s.has ep = true)
    (hcond : (s.recs ep).status = true →
      (Consts.healthFailInterval : Int) ≤ s.now - (s.recs ep).lastSuccessTime ∧
      (Consts.healthFainN : Int) ≤ (s.recs ep).lastFailCount) :
    ((checkStatus conn s).recs ep).status = false ∧ ep ∉ (checkStatus conn s).sel := by
  have hst := foldl_checkOne_blocks conn s.reg s ep (h.hasReg ep hh) hh (h.closed ep) hcond
  exact ⟨hst, (checkStatus_invA conn h).blockedOut ep hst⟩

/-- the four ways `checkOne` can go -/
theorem checkOne_cases (conn : List Nat) (s : Mgr) (x : Nat) :
    (s.has x = false ∧ checkOne conn s x = s) ∨
    (s.has x = true ∧ (checkActive s.now (conn.contains x) (s.recs x)).firstTime = true ∧
      checkOne conn s x = takeOut (setRec s x (checkActive s.now (conn.contains x) (s.recs x)).r) x) ∨
    (s.has x = true ∧ (checkActive s.now (conn.contains x) (s.recs x)).firstTime = false ∧
      ((checkActive s.now (conn.contains x) (s.recs x)).needCheck = false ∨ x ∈ s.pend) ∧
      checkOne conn s x = setRec s x (checkActive s.now (conn.contains x) (s.recs x)).r) ∨
    (s.has x = true ∧ (checkActive s.now (conn.contains x) (s.recs x)).needCheck = true ∧ x ∉ s.pend ∧
      checkOne conn s x = enqueue (setRec s x (checkActive s.now (conn.contains x) (s.recs x)).r) x) := by
  cases hh : s.has x
  · left; exact ⟨rfl, by unfold checkOne; simp only [hh, Bool.false_eq_true, if_false]⟩
  · right
    cases hft : (checkActive s.now (conn.contains x) (s.recs x)).firstTime
    · right
      cases hn : (checkActive s.now (conn.contains x) (s.recs x)).needCheck
      · left; refine ⟨rfl, rfl, Or.inl rfl, ?_⟩
        unfold checkOne
        simp only [hh, hft, hn, if_true, Bool.false_eq_true, if_false, Bool.false_and]
      · by_cases hp : x ∈ s.pend
        · left; refine ⟨rfl, rfl, Or.inr hp, ?_⟩
          have e : (setRec s x (checkActive s.now (conn.contains x) (s.recs x)).r).pend.contains x = true := by
            simpa [setRec] using hp
          unfold checkOne
          simp only [hh, hft, hn, e, if_true, Bool.false_eq_true, if_false, Bool.true_and, Bool.not_true]
        · right; refine ⟨rfl, rfl, hp, ?_⟩
          have e : (setRec s x (checkActive s.now (conn.contains x) (s.recs x)).r).pend.contains x = false := by
            simpa [setRec] using hp
          unfold checkOne
          simp only [hh, hft, hn, e, if_true, Bool.false_eq_true, if_false, Bool.true_and, Bool.not_false]
    · left
      have hf := checkActive_first _ _ _ hft
      refine ⟨rfl, rfl, ?_⟩
      unfold checkOne
      simp only [hh, hft, hf.2.2.2.1, if_true, Bool.false_eq_true, if_false, Bool.false_and]

end Tars.Health
