import TarsModel.Proofs.SchemaSpec

/-!
# Targets: what the decoder needs of the value it decodes into, and what `ResetDefault` makes of it

`Ready env ty o`, for a non-struct type: `o` is the Go zero value of `ty` (what a vector/map
element or a freshly reset member holds).  For a struct type it only says that `o` has the
*shape* of the struct: one member value per declared member, and every member of struct type
(without explicit default) is again such a value — all other members may hold anything, because
`ResetDefault` (since the fix "ResetDefault resets every member") overwrites them before any read.
`OldOK`: the value a member holds when its read is executed (after `ResetDefault`).
-/
namespace Tars
open Consts

mutual
def Ready (env : Env) : Ty → Val → Prop
  | ty, .list os =>
    match ty with
    | .vec _ => os = []
    | .arr n e => os.length = n ∧ ReadyAll env e os
    | _ => False
  | ty, .map kvs =>
    match ty with
    | .map _ _ => kvs = []
    | _ => False
  | ty, .struct os =>
    match ty with
    | .struct name =>
      match env.find name with
      | some fs => ReadyMembers env fs os
      | none => False
    | _ => False
  | ty, v => ty.isAtom = true ∧ v = scalarZero ty
def ReadyAll (env : Env) : Ty → List Val → Prop
  | _, [] => True
  | e, o :: os => Ready env e o ∧ ReadyAll env e os
def ReadyMembers (env : Env) : List Field → List Val → Prop
  | [], [] => True
  | f :: fs, o :: os =>
    (match f.dflt with
     | some _ => True
     | none =>
       match f.ty with
       | .struct _ => Ready env f.ty o
       | _ => True) ∧ ReadyMembers env fs os
  | _, _ => False
end

/-- an admissible decode target for struct `S`: any struct value with one member per declared
    member whose struct-typed members are again admissible targets; every other member is
    arbitrary (stale data of a reused target, even of the wrong Go type in the model) -/
abbrev TargetOK (env : Env) (S : String) (old : Val) : Prop := Ready env (.struct S) old

/-- the value a member of type `ty` with default `dflt` holds when it is read -/
def OldOK (env : Env) (ty : Ty) (dflt : Option Val) (o : Val) : Prop :=
  match dflt with
  | some d => o = d
  | none => Ready env ty o

def OldOKs (env : Env) : List Field → List Val → Prop
  | [], [] => True
  | f :: fs, o :: os => OldOK env f.ty f.dflt o ∧ OldOKs env fs os
  | _, _ => False

theorem OldOKs.ready {env : Env} : ∀ {fs : List Field} {os : List Val},
    OldOKs env fs os → ReadyMembers env fs os
  | [], [], _ => by simp [ReadyMembers]
  | [], _ :: _, h => by simp [OldOKs] at h
  | _ :: _, [], h => by simp [OldOKs] at h
  | f :: fs, o :: os, h => by
    simp only [OldOKs] at h
    simp only [ReadyMembers]
    refine ⟨?_, h.2.ready⟩
    have h1 := h.1
    unfold OldOK at h1
    split
    · trivial
    · rename_i hd
      rw [hd] at h1
      split
      · exact h1
      · trivial

/-! ## zero values are ready -/

theorem TyOK.mono {env : Env} {rk : String → Nat} {b b' : Nat} (hb : b ≤ b') :
    ∀ {ty : Ty}, TyOK env rk b ty → TyOK env rk b' ty := by
  intro ty
  induction ty with
  | vec e _ => simp only [TyOK]; exact id
  | arr n e ih => simp only [TyOK]; exact fun h => ⟨h.1, h.2.1, ih h.2.2⟩
  | map k v _ _ => simp only [TyOK]; exact id
  | struct name => simp only [TyOK]; exact fun h => ⟨h.1, by omega⟩
  | _ => simp [TyOK]

theorem readyAll_replicate (env : Env) (e : Ty) (o : Val) (h : Ready env e o) :
    ∀ n, ReadyAll env e (List.replicate n o)
  | 0 => by simp [ReadyAll]
  | n+1 => by simp only [List.replicate_succ, ReadyAll]; exact ⟨h, readyAll_replicate env e o h n⟩

theorem readyMembers_map_zero (env : Env) (g : Ty → Val) :
    ∀ (gs : List Field), (∀ f ∈ gs, f.dflt = none → Ready env f.ty (g f.ty)) →
      ReadyMembers env gs (gs.map fun f => g f.ty)
  | [], _ => by simp [ReadyMembers]
  | f :: gs, h => by
    simp only [List.map_cons, ReadyMembers]
    refine ⟨?_, readyMembers_map_zero env g gs (fun f' hf' => h f' (by simp [hf']))⟩
    split
    · trivial
    · rename_i hd
      split
      · exact h f (by simp) hd
      · trivial

/-- the Go zero value of a supported type is ready, provided the fuel covers the struct rank -/
theorem zeroVal_ready {env : Env} {rk : String → Nat} (hE : EnvWF env rk) :
    ∀ (fuel : Nat) (ty : Ty), TyOK env rk fuel ty → Ready env ty (zeroVal env fuel ty) := by
  intro fuel
  induction fuel with
  | zero =>
    intro ty
    induction ty with
    | vec e _ => intro _; simp [zeroVal, Ready]
    | arr n e ih =>
      intro h; simp only [TyOK] at h
      rw [zeroVal]; simp only [Ready, List.length_replicate, true_and]
      exact readyAll_replicate env e _ (ih h.2.2) n
    | map k v _ _ => intro _; simp [zeroVal, Ready]
    | struct name => intro h; simp [TyOK] at h
    | _ => intro _; simp [zeroVal, Ready, scalarZero, Ty.isAtom, Ty.isScalar]
  | succ fuel ihf =>
    intro ty
    induction ty with
    | vec e _ => intro _; simp [zeroVal, Ready]
    | arr n e ih =>
      intro h; simp only [TyOK] at h
      rw [zeroVal]; simp only [Ready, List.length_replicate, true_and]
      exact readyAll_replicate env e _ (ih h.2.2) n
    | map k v _ _ => intro _; simp [zeroVal, Ready]
    | struct name =>
      intro h
      simp only [TyOK] at h
      obtain ⟨⟨fs, hfs⟩, hrk⟩ := h
      rw [zeroVal]
      simp only [hfs, Ready]
      obtain ⟨_, _, hf⟩ := hE name fs hfs
      apply readyMembers_map_zero env (zeroVal env fuel) fs
      intro f hfm _
      exact ihf f.ty (TyOK.mono (by omega) (hf f hfm).2.1)
    | _ => intro _; simp [zeroVal, Ready, scalarZero, Ty.isAtom, Ty.isScalar]

theorem zeroOf_ready {env : Env} {rk : String → Nat} (hE : EnvWF env rk) (ty : Ty)
    (h : TyOK env rk (env.length + 1) ty) : Ready env ty (zeroOf env ty) :=
  zeroVal_ready hE _ ty h


/-! ## `ResetDefault` -/

theorem resetDefault_zero (env : Env) (fs : List Field) (os : List Val) :
    resetDefault env 0 fs os = os := by
  rw [resetDefault]

/-- the recursive `st.X.ResetDefault()` of a struct-typed member -/
def resetInner (env : Env) (fuel : Nat) (ty : Ty) (o : Val) : Val :=
  match ty, o with
  | .struct name, .struct inner =>
    match env.find name with
    | some ifs => Val.struct (resetDefault env fuel ifs inner)
    | none => o
  | _, _ => o

theorem resetDefault_cons (env : Env) (fuel : Nat) (f : Field) (fs : List Field) (o : Val)
    (os : List Val) :
    resetDefault env (fuel+1) (f :: fs) (o :: os) =
      (match f.dflt with
       | some d => d
       | none =>
         match f.ty with
         | .struct _ => resetInner env fuel f.ty o
         | .arr n (.struct s) =>
           (match env.find s with
            | some ifs =>
              Val.list (List.replicate n
                (Val.struct (resetDefault env fuel ifs (ifs.map fun g => zeroOf env g.ty))))
            | none => zeroOf env f.ty)
         | t => zeroOf env t) :: resetDefault env (fuel+1) fs os := by
  conv => lhs; unfold resetDefault
  rfl

/-- the nested `ResetDefault` of a struct-typed member keeps it an admissible target -/
theorem resetDefault_inner_ready (env : Env) (fuel : Nat)
    (ih : ∀ (fs : List Field) (os : List Val), ReadyMembers env fs os →
      ReadyMembers env fs (resetDefault env fuel fs os))
    (nm : String) (o : Val) (h : Ready env (.struct nm) o) :
    Ready env (.struct nm) (resetInner env fuel (.struct nm) o) := by
  unfold resetInner
  cases o with
  | struct inner =>
    simp only
    cases hfind : env.find nm with
    | none => simpa [hfind] using h
    | some ifs =>
      simp only [Ready, hfind] at h ⊢
      exact ih ifs inner h
  | _ => exact h

/-- `ResetDefault` keeps a target admissible, whatever the fuel -/
theorem resetDefault_ready (env : Env) : ∀ (fuel : Nat) (fs : List Field) (os : List Val),
    ReadyMembers env fs os → ReadyMembers env fs (resetDefault env fuel fs os)
  | 0, fs, os, h => by rw [resetDefault_zero]; exact h
  | fuel+1, [], [], _ => by simp [resetDefault, ReadyMembers]
  | fuel+1, [], _ :: _, h => by simp [ReadyMembers] at h
  | fuel+1, _ :: _, [], h => by simp [ReadyMembers] at h
  | fuel+1, f :: fs, o :: os, h => by
    obtain ⟨tag, req, ty, dflt⟩ := f
    simp only [ReadyMembers] at h
    have ih := resetDefault_ready env (fuel+1) fs os h.2
    rw [resetDefault_cons]
    simp only [ReadyMembers]
    refine ⟨?_, ih⟩
    have h1 := h.1
    cases dflt with
    | some d => trivial
    | none =>
      cases ty <;> try trivial
      exact resetDefault_inner_ready env fuel (resetDefault_ready env fuel) _ o h1
termination_by fuel fs => (fuel, fs.length)

/-- after `ResetDefault` (with at least one unit of fuel) every member with an explicit default
    holds it, every other non-struct member holds its Go zero value, and a struct-typed member
    is still an admissible target -/
theorem resetDefault_oldOK {env : Env} {rk : String → Nat} (hE : EnvWF env rk) (fuel : Nat) :
    ∀ (fs : List Field) (os : List Val), (∀ f ∈ fs, TyOK env rk (env.length + 1) f.ty) →
    ReadyMembers env fs os → OldOKs env fs (resetDefault env (fuel+1) fs os)
  | [], [], _, _ => by simp [resetDefault, OldOKs]
  | [], _ :: _, _, h => by simp [ReadyMembers] at h
  | _ :: _, [], _, h => by simp [ReadyMembers] at h
  | f :: fs, o :: os, hty, h => by
    simp only [ReadyMembers] at h
    have ih := resetDefault_oldOK hE fuel fs os (fun g hg => hty g (by simp [hg])) h.2
    have htf := hty f (by simp)
    obtain ⟨tag, req, ty, dflt⟩ := f
    rw [resetDefault_cons]
    simp only [OldOKs]
    refine ⟨?_, ih⟩
    have h1 := h.1
    unfold OldOK
    cases dflt with
    | some d => rfl
    | none =>
      simp only at htf
      cases ty with
      | struct nm => exact resetDefault_inner_ready env fuel (resetDefault_ready env fuel) _ o h1
      | arr n e =>
        cases e with
        | struct s =>
          -- `[N]S{}` followed by `ResetDefault` of every element: `n` admissible targets
          simp only
          cases hfs : env.find s with
          | none => exact zeroOf_ready hE _ htf
          | some ifs =>
            simp only [Ready, List.length_replicate, true_and]
            apply readyAll_replicate
            simp only [Ready, hfs]
            apply resetDefault_ready
            obtain ⟨hrk, _, hfok⟩ := hE s ifs hfs
            apply readyMembers_map_zero env (zeroOf env) ifs
            intro g hg _
            exact zeroOf_ready hE _ (TyOK.mono (by omega) (hfok g hg).2.1)
        | _ => exact zeroOf_ready hE _ htf
      | _ => exact zeroOf_ready hE _ htf

/-- the two `ResetDefault` calls of `ReadBlock` + `ReadFrom` -/
theorem resetDefault_twice_oldOK {env : Env} {rk : String → Nat} (hE : EnvWF env rk) (fuel : Nat)
    (fs : List Field) (os : List Val) (hty : ∀ f ∈ fs, TyOK env rk (env.length + 1) f.ty)
    (h : ReadyMembers env fs os) :
    OldOKs env fs (resetDefault env (fuel+1) fs (resetDefault env (fuel+1) fs os)) :=
  resetDefault_oldOK hE fuel fs _ hty (resetDefault_oldOK hE fuel fs os hty h).ready

end Tars
