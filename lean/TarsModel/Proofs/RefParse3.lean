import TarsModel.Proofs.RefParse2

/-!
# Reference decoder, stage 1c: the parse statement for every value
-/
namespace Tars
open Consts
namespace Ref

theorem pr_list (env : Env) (vs : List Val) (ih : ∀ v ∈ vs, PR env v) : PR env (.list vs) := by
  intro total fuel tag req ty dflt t htag hwt hne hfuel htot
  obtain ⟨f, rfl⟩ : ∃ f, fuel = f + 1 := ⟨fuel - 1, by omega⟩
  -- common part for vec and arr
  have key : ∀ e, WTs env e vs → vs.length < 2^31 →
      encVar env tag req ty dflt (.list vs) =
        (if (!req && vs.isEmpty) = true then []
         else if e = .i8 then
          writeHead tySimpleList tag ++ writeHead tyBYTE 0 ++ writeInt32 (wrapS 32 vs.length) 0 ++
            int8Bytes vs
         else writeHead tyLIST tag ++ writeInt32 (wrapS 32 vs.length) 0 ++ encElems env e vs) →
      tlvVar env tag ty (.list vs) =
        (if e = .i8 then Tlv.mk tag 13 0 0 0 (int8Bytes vs) []
         else Tlv.mk tag 9 0 0 0 [] (tlvElems env e vs)) →
      parseField total (f+1) (encVar env tag req ty dflt (.list vs) ++ t)
        = some (tlvVar env tag ty (.list vs), t) := by
    intro e hwts hlen henc htlv
    rw [henc] at hne hfuel htot ⊢
    rw [htlv]
    by_cases c1 : (!req && vs.isEmpty) = true
    · rw [if_pos c1] at hne; exact absurd rfl hne
    · rw [if_neg c1] at hfuel htot ⊢
      have hl1 := List.length_pos_iff.mpr (writeInt32_headAt (wrapS 32 vs.length) 0).ne_nil
      by_cases c2 : e = .i8
      · rw [if_pos c2] at hfuel htot ⊢
        rw [if_pos c2]
        simp only [List.append_assoc, List.length_append] at hfuel htot ⊢
        rw [parseField_succ_head _ _ _ _ _ (by decide) htag]
        simp +decide only [if_true, if_false]
        rw [parseHead_writeHead tyBYTE 0 _ (by decide) (by decide)]
        simp +decide only [if_false]
        obtain ⟨f', rfl⟩ : ∃ f', f = f' + 1 := ⟨f - 1, by omega⟩
        rw [lenOf_len total f' vs.length _ hlen]
        simp only
        subst c2
        have hb3 := (int8_roundtrip env vs hwts).2.2
        rw [takeN_append' vs.length _ t hb3]
      · rw [if_neg c2] at hfuel htot ⊢
        rw [if_neg c2]
        simp only [List.append_assoc, List.length_append] at hfuel htot ⊢
        rw [parseField_succ_head _ _ _ _ _ (by decide) htag]
        simp +decide only [if_true, if_false]
        obtain ⟨f', rfl⟩ : ∃ f', f = f' + 1 := ⟨f - 1, by omega⟩
        rw [lenOf_len total f' vs.length _ hlen]
        simp only
        have hge := encElems_length_ge env e vs hwts
        have hh := writeHead_length_pos tyLIST tag
        have c3 : ¬ (vs.length > total) := by omega
        rw [if_neg c3]
        rw [parseElems_enc env e vs ih hwts total (f'+1) t (by omega) (by omega)]
  cases ty <;> simp only [WT] at hwt
  case vec e =>
    exact key e hwt.2 hwt.1 (by rw [encVar]) (by simp only [tlvVar])
  case arr n e =>
    exact key e hwt.2.2 (by omega) (by rw [encVar]) (by simp only [tlvVar])

theorem pr_map (env : Env) (kvs : List (Val × Val)) (ih : ∀ p ∈ kvs, PR env p.1 ∧ PR env p.2) :
    PR env (.map kvs) := by
  intro total fuel tag req ty dflt t htag hwt hne hfuel htot
  obtain ⟨f, rfl⟩ : ∃ f, fuel = f + 1 := ⟨fuel - 1, by omega⟩
  cases ty <;> simp only [WT] at hwt
  rename_i k v
  rw [encVar] at hne hfuel htot ⊢
  simp only [tlvVar]
  by_cases c1 : (!req && kvs.isEmpty) = true
  · rw [if_pos c1] at hne; exact absurd rfl hne
  · rw [if_neg c1] at hfuel htot ⊢
    have hl1 := List.length_pos_iff.mpr (writeInt32_headAt (wrapS 32 kvs.length) 0).ne_nil
    simp only [List.append_assoc, List.length_append] at hfuel htot ⊢
    rw [parseField_succ_head _ _ _ _ _ (by decide) htag]
    simp +decide only [if_true, if_false]
    obtain ⟨f', rfl⟩ : ∃ f', f = f' + 1 := ⟨f - 1, by omega⟩
    rw [lenOf_len total f' kvs.length _ hwt.1]
    simp only
    have hge := encPairs_length_ge env k v kvs hwt.2.2
    have hh := writeHead_length_pos tyMAP tag
    have c3 : ¬ (kvs.length > total) := by omega
    rw [if_neg c3]
    rw [parsePairs_enc env k v kvs ih hwt.2.2 total (f'+1) t (by omega) (by omega)]

theorem pr_struct (env : Env) (rk : String → Nat) (hE : EnvWF env rk) (vs : List Val)
    (ih : ∀ v ∈ vs, PR env v) : PR env (.struct vs) := by
  intro total fuel tag req ty dflt t htag hwt hne hfuel htot
  obtain ⟨f, rfl⟩ : ∃ f, fuel = f + 1 := ⟨fuel - 1, by omega⟩
  cases ty <;> simp only [WT] at hwt
  rename_i name
  cases hfs : env.find name with
  | none => simp [hfs] at hwt
  | some fs =>
    simp only [hfs] at hwt
    rw [encVar] at hne hfuel htot ⊢
    simp only [hfs, tlvVar, List.append_assoc, List.length_append] at hfuel htot ⊢
    rw [parseField_succ_head _ _ _ _ _ (by decide) htag]
    simp +decide only [if_true, if_false]
    have hh := writeHead_length_pos tyStructBegin tag
    have he := writeHead_length_pos tyStructEnd 0
    obtain ⟨_, _, hfok⟩ := hE name fs hfs
    rw [parseMembers_enc env vs ih fs hwt (fun g hg => (hfok g hg).1) total f t (by omega)
      (by omega)]

theorem pr_all (env : Env) (rk : String → Nat) (hE : EnvWF env rk) : ∀ v, PR env v :=
  Val.ind
    (fun b => pr_scalar env _ (fun ty h => by simpa only [WT] using h) (fun _ _ => by simp only [tlvVar]))
    (fun i => pr_scalar env _ (fun ty h => by simpa only [WT] using h) (fun _ _ => by simp only [tlvVar]))
    (fun b => pr_scalar env _ (fun ty h => by simpa only [WT] using h) (fun _ _ => by simp only [tlvVar]))
    (fun b => pr_scalar env _ (fun ty h => by simpa only [WT] using h) (fun _ _ => by simp only [tlvVar]))
    (fun s => pr_scalar env _ (fun ty h => by simpa only [WT] using h) (fun _ _ => by simp only [tlvVar]))
    (pr_list env) (pr_map env) (pr_struct env rk hE)

end Ref
end Tars
