import TarsModel.Proofs.ServerConnDrop

/-!
Helper lemmas for C12, part 5: facts about whole runs — the connection table only moves forward,
a dropped request stays dropped along every continuation, `sendCloseMsg` reaches every registered
open connection, what `CloseIdles` does on an empty table.
-/
namespace Tars.ServerConn

theorem updConn_mono {s s' : State} {c : Cid} {f : Conn → Option Conn} (hg : Good f)
    (h : updConn s c f = some s') : ConnsMono s.conns s'.conns := by
  obtain ⟨k, k', hk, hf, rfl⟩ := updConn_some h
  exact connsMono_set hk (hg.mono k k' hf)

/-- no action ever re-opens a connection, withdraws a notification or un-starts a goroutine -/
theorem step_mono {cfg : Cfg} {s s' : State} (a : Action) (h : step cfg s a = some s') :
    ConnsMono s.conns s'.conns := by
  cases a with
  | connect =>
    simp only [step, Option.some.injEq] at h; subst h; exact connsMono_append _ _
  | send c r => exact updConn_mono (good_cSend false r) h
  | sendNR c r => exact updConn_mono (good_cSend true r) h
  | accept c =>
    simp only [step] at h
    split at h
    · exact updConn_mono good_cAccept h
    · contradiction
  | register c => exact updConn_mono good_cRegister h
  | stamp c => exact updConn_mono good_cStamp h
  | read c n => exact updConn_mono (good_cRead n) h
  | readErr c f => exact updConn_mono (good_cReadErr _ _ f) h
  | age c => exact updConn_mono good_cAge h
  | dispatch c => exact updConn_mono (good_cDispatch _) h
  | enqueue c =>
    simp only [step] at h
    split at h <;> try contradiction
    rename_i n q k hp hk
    split at h <;> try contradiction
    rename_i k' i hce
    have hce' : cEnqueued' k = some k' := by simp [cEnqueued', hce]
    split at h
    · simp only [Option.some.injEq] at h; subst h
      exact connsMono_set hk (good_cEnqueued'.mono k k' hce')
    · split at h <;> try contradiction
      simp only [Option.some.injEq] at h; subst h
      exact connsMono_set hk (good_cEnqueued'.mono k k' hce')
  | pTake =>
    simp only [step] at h
    split at h <;> try contradiction
    split at h <;> try contradiction
    simp only [Option.some.injEq] at h; subst h; exact ConnsMono.refl _
  | pGive =>
    simp only [step] at h
    split at h <;> try contradiction
    rename_i n q c i hp hh
    split at h <;> try contradiction
    cases hu : updConn s c (cHand i) with
    | none => rw [hu] at h; contradiction
    | some s1 =>
      rw [hu] at h
      simp only [Option.map_some, Option.some.injEq] at h; subst h
      have := updConn_mono (good_cHand i) hu
      exact this
  | start c i =>
    simp only [step] at h
    split at h
    · exact updConn_mono (good_cStartP i) h
    · exact updConn_mono (good_cStart i) h
  | fin c i =>
    simp only [step] at h
    split at h
    · contradiction
    · exact updConn_mono (good_cFin i) h
  | finEarly c i =>
    simp only [step] at h
    split at h
    · exact updConn_mono (good_cFinEarly i) h
    · contradiction
  | lateWrite c i => exact updConn_mono (good_cLateWrite i) h
  | write c i => exact updConn_mono (good_cWrite i) h
  | skip c i => exact updConn_mono (good_cSkip _ i) h
  | dec c i => exact updConn_mono (good_cDec i) h
  | drainTick c =>
    simp only [step] at h
    split at h <;> try contradiction
    split at h <;> try contradiction
    exact updConn_mono good_cDrainTick h
  | drainClose c => exact updConn_mono good_cDrainClose h
  | shutdownCall =>
    simp only [step] at h
    split at h <;> try contradiction
    simp only [Option.some.injEq] at h; subst h; exact ConnsMono.refl _
  | setClosed =>
    simp only [step] at h
    split at h <;> try contradiction
    simp only [Option.some.injEq] at h; subst h; exact ConnsMono.refl _
  | acceptExit =>
    simp only [step] at h
    split at h <;> try contradiction
    simp only [Option.some.injEq] at h; subst h; exact ConnsMono.refl _
  | relCall =>
    simp only [step] at h
    split at h <;> try contradiction
    simp only [Option.some.injEq] at h; subst h; exact ConnsMono.refl _
  | pStop =>
    simp only [step] at h
    split at h <;> try contradiction
    simp only [Option.some.injEq] at h; subst h; exact ConnsMono.refl _
  | relRet =>
    simp only [step] at h
    split at h <;> try contradiction
    simp only [Option.some.injEq] at h; subst h; exact ConnsMono.refl _
  | closeMsg =>
    simp only [step] at h
    split at h <;> try contradiction
    split at h <;> try contradiction
    simp only [Option.some.injEq] at h; subst h; exact connsMono_map_notify _
  | onShutdownRet =>
    simp only [step] at h
    split at h <;> try contradiction
    simp only [Option.some.injEq] at h; subst h; exact ConnsMono.refl _
  | ciBegin =>
    simp only [step] at h
    split at h <;> try contradiction
    simp only [Option.some.injEq] at h; subst h
    by_cases hl : s.listenClosed = 1
    · simp only [hl, if_true]; exact connsMono_map_notify _
    · simp only [hl, if_false]; exact ConnsMono.refl _
  | ciVisit c =>
    simp only [step] at h
    split at h <;> try contradiction
    split at h <;> try contradiction
    split at h <;> try contradiction
    rename_i k hk
    split at h
    · simp only [Option.some.injEq] at h; subst h; exact ConnsMono.refl _
    · split at h
      · simp only [Option.some.injEq] at h; subst h; exact ConnsMono.refl _
      · split at h
        · simp only [Option.some.injEq] at h; subst h; exact ConnsMono.refl _
        · simp only [Option.some.injEq] at h; subst h
          exact connsMono_set hk (connMono_cCloseByIdles k)
        · simp only [Option.some.injEq] at h; subst h; exact ConnsMono.refl _
  | ciClose =>
    simp only [step] at h
    split at h <;> try contradiction
    split at h <;> try contradiction
    split at h <;> try contradiction
    rename_i k hk
    simp only [Option.some.injEq] at h; subst h
    exact connsMono_set hk (connMono_cCloseByIdles k)
  | ciEnd =>
    simp only [step] at h
    split at h <;> try contradiction
    split at h <;> try contradiction
    simp only [Option.some.injEq] at h; subst h; exact ConnsMono.refl _
  | ctxExpire =>
    simp only [step] at h
    split at h <;> try contradiction
    simp only [Option.some.injEq] at h; subst h; exact ConnsMono.refl _
  | recvRsp c i => exact updConn_mono (good_cRecvRsp i) h
  | recvMsg c => exact updConn_mono good_cRecvMsg h
  | recvEof c => exact updConn_mono good_cRecvEof h

theorem runFrom_mono {cfg : Cfg} {acts : List Action} : ∀ {s s' : State},
    runFrom cfg s acts = some s' → ConnsMono s.conns s'.conns := by
  induction acts with
  | nil => intro s s' h; simp [runFrom] at h; subst h; exact ConnsMono.refl _
  | cons a as ih =>
    intro s s' h
    simp only [runFrom] at h
    split at h <;> try contradiction
    rename_i s1 hs1
    exact (step_mono a hs1).trans (ih h)

theorem runFrom_append {cfg : Cfg} {a b : List Action} : ∀ {s s' : State},
    runFrom cfg s (a ++ b) = some s' → ∃ m, runFrom cfg s a = some m ∧ runFrom cfg m b = some s' := by
  induction a with
  | nil => intro s s' h; exact ⟨s, rfl, h⟩
  | cons x xs ih =>
    intro s s' h
    simp only [List.cons_append, runFrom] at h ⊢
    split at h <;> try contradiction
    rename_i s1 hs1
    obtain ⟨m, h1, h2⟩ := ih h
    exact ⟨m, by simp [h1], h2⟩

/-- a dropped request stays dropped along every continuation -/
theorem dropped_run {cfg : Cfg} {n qc : Nat} (hpool : cfg.pool = some (n, qc)) {c i : Nat}
    {acts : List Action} : ∀ {s s' : State}, Reachable cfg s → Dropped s c i →
      runFrom cfg s acts = some s' → Dropped s' c i := by
  induction acts with
  | nil => intro s s' _ hd h; simp [runFrom] at h; subst h; exact hd
  | cons a as ih =>
    intro s s' hr hd h
    simp only [runFrom] at h
    split at h <;> try contradiction
    rename_i s1 hs1
    exact ih (Reachable.step a hr hs1) (dropped_step hpool a (ginv_reachable hr) hd hs1) h

/-- what `sendCloseMsg` does to one table entry -/
theorem notifyAll_notified {s : State} {c : Nat} {k : Conn} (hk : s.conns[c]? = some k)
    (hr : k.registered = true) (ho : k.srvClosed = false) :
    ∃ k', (notifyAll s).conns[c]? = some k' ∧ k'.notified = true :=
  ⟨cNotify k, notifyAll_get hk, cNotify_notified hr ho⟩

theorem registeredIds_notifyAll (s : State) : registeredIds (notifyAll s) = registeredIds s := by
  unfold registeredIds notifyAll
  simp only [List.length_map]
  apply List.filter_congr
  intro c _
  rw [List.getElem?_map]
  cases s.conns[c]? with
  | none => rfl
  | some k => simp [(cNotify_keeps k).2.2]

/-! ### without a pool no request is ever in the state `handed` -/

def NoHand (k : Conn) : Prop := ∀ q ∈ k.reqs, q.st ≠ .handed
def NoHandF (f : Conn → Option Conn) : Prop := ∀ k k', f k = some k' → NoHand k → NoHand k'

theorem nhf_of_reqs_eq {f : Conn → Option Conn} (h : ∀ k k', f k = some k' → k'.reqs = k.reqs) : NoHandF f := by
  intro k k' hf hn q hq
  rw [h k k' hf] at hq
  exact hn q hq

theorem nhf_cSetSt (i : Nat) (frm : HSt) (to : Conn → HSt) (hto : ∀ k, to k ≠ .handed) :
    NoHandF (fun k => cSetSt i frm (to k) k) := by
  intro k k' h hn q hq
  simp only [cSetSt] at h
  split at h <;> try contradiction
  split at h <;> try contradiction
  simp only [Option.some.injEq] at h; subst h
  rcases List.mem_or_eq_of_mem_set hq with hq | hq
  · exact hn q hq
  · subst hq; exact hto k

theorem nhf_cSend (nr : Bool) (r : Rid) : NoHandF (cSend nr r) := nhf_of_reqs_eq (by
  intro k k' h; unfold cSend at h; split at h <;> try contradiction
  simp only [Option.some.injEq] at h; subst h; rfl)
theorem nhf_cAccept : NoHandF cAccept := nhf_of_reqs_eq (by
  intro k k' h; unfold cAccept at h; split at h <;> try contradiction
  simp only [Option.some.injEq] at h; subst h; rfl)
theorem nhf_cRegister : NoHandF cRegister := nhf_of_reqs_eq (by
  intro k k' h; unfold cRegister at h; split at h <;> try contradiction
  simp only [Option.some.injEq] at h; subst h; rfl)
theorem nhf_cStamp : NoHandF cStamp := nhf_of_reqs_eq (by
  intro k k' h; unfold cStamp at h; split at h <;> try contradiction
  simp only [Option.some.injEq] at h; subst h; rfl)
theorem nhf_cRead (n : Nat) : NoHandF (cRead n) := nhf_of_reqs_eq (by
  intro k k' h; unfold cRead at h; split at h <;> try contradiction
  split at h <;> try contradiction
  simp only [Option.some.injEq] at h; subst h; rfl)
theorem nhf_cReadErr (p b f : Bool) : NoHandF (cReadErr p b f) := nhf_of_reqs_eq (by
  intro k k' h; unfold cReadErr at h; split at h <;> try contradiction
  split at h <;> (simp only [Option.some.injEq] at h; subst h; rfl))
theorem nhf_cDrainTick : NoHandF cDrainTick := nhf_of_reqs_eq (by
  intro k k' h; unfold cDrainTick at h; split at h <;> try contradiction
  simp only [Option.some.injEq] at h; subst h; rfl)
theorem nhf_cAge : NoHandF cAge := nhf_of_reqs_eq (by
  intro k k' h; unfold cAge at h; simp only [Option.some.injEq] at h; subst h; rfl)
theorem nhf_cDrainClose : NoHandF cDrainClose := nhf_of_reqs_eq (by
  intro k k' h; unfold cDrainClose at h; split at h <;> try contradiction
  split at h <;> try contradiction
  simp only [Option.some.injEq] at h; subst h; rfl)
theorem nhf_cRecvRsp (i : Nat) : NoHandF (cRecvRsp i) := nhf_of_reqs_eq (by
  intro k k' h; unfold cRecvRsp at h; split at h <;> try contradiction
  split at h <;> try contradiction
  simp only [Option.some.injEq] at h; subst h; rfl)
theorem nhf_cRecvMsg : NoHandF cRecvMsg := nhf_of_reqs_eq (by
  intro k k' h; unfold cRecvMsg at h; split at h <;> try contradiction
  simp only [Option.some.injEq] at h; subst h; rfl)
theorem nhf_cRecvEof : NoHandF cRecvEof := nhf_of_reqs_eq (by
  intro k k' h; unfold cRecvEof at h; split at h <;> try contradiction
  simp only [Option.some.injEq] at h; subst h; rfl)
theorem nhf_cEnqueued' : NoHandF cEnqueued' := nhf_of_reqs_eq (by
  intro k k' h; unfold cEnqueued' cEnqueued at h; split at h <;> simp at h
  subst h; rfl)
theorem nhf_cDispatch (p : Bool) : NoHandF (cDispatch p) := by
  intro k k' h hn q hq
  unfold cDispatch at h; split at h <;> try contradiction
  simp only [Option.some.injEq] at h; subst h
  simp at hq
  rcases hq with hq | hq
  · exact hn q hq
  · subst hq; simp
theorem nhf_cStart (i : Nat) : NoHandF (cStart i) := nhf_cSetSt i .queued (fun _ => .running) (by simp)
theorem nhf_cStartP (i : Nat) : NoHandF (cStartP i) := nhf_cSetSt i .handed (fun _ => .running) (by simp)
theorem nhf_cFin (i : Nat) : NoHandF (cFin i) := nhf_cSetSt i .running (fun _ => .finished) (by simp)
theorem nhf_of_imp {f g : Conn → Option Conn} (h : ∀ k k', f k = some k' → g k = some k')
    (hg : NoHandF g) : NoHandF f := fun k k' hf => hg k k' (h k k' hf)
theorem nhf_cWrite (i : Nat) : NoHandF (cWrite i) :=
  nhf_of_imp (cWrite_imp i) (nhf_cSetSt i .finished (fun k => .wrote (!k.srvClosed)) (by simp))
theorem nhf_cSkip (d : Bool) (i : Nat) : NoHandF (cSkip d i) :=
  nhf_of_imp (cSkip_imp d i) (nhf_cSetSt i .finished (fun _ => if d then .wrote true else .leaked)
    (by intro _; cases d <;> simp))
theorem nhf_cDec (i : Nat) : NoHandF (cDec i) := by
  intro k k' h hn q hq
  unfold cDec at h
  split at h <;> try contradiction
  split at h <;> try contradiction
  simp only [Option.some.injEq] at h; subst h
  rcases List.mem_or_eq_of_mem_set hq with hq | hq
  · exact hn q hq
  · subst hq; simp

theorem nhf_cFinEarly (i : Nat) : NoHandF (cFinEarly i) := by
  intro k k' h hn q hq
  unfold cFinEarly at h
  split at h <;> try contradiction
  split at h <;> try contradiction
  simp only [Option.some.injEq] at h; subst h
  rcases List.mem_or_eq_of_mem_set hq with hq | hq
  · exact hn q hq
  · subst hq; simp

theorem nhf_cLateWrite (i : Nat) : NoHandF (cLateWrite i) := by
  intro k k' h hn q hq
  unfold cLateWrite at h
  split at h <;> try contradiction
  split at h <;> try contradiction
  simp only [Option.some.injEq] at h; subst h
  rcases List.mem_or_eq_of_mem_set hq with hq | hq
  · exact hn q hq
  · subst hq; simp

def NoHandAll (s : State) : Prop := ∀ (c : Nat) (k : Conn), s.conns[c]? = some k → NoHand k

theorem nohand_updConn {s s' : State} {c : Cid} {f : Conn → Option Conn} (hf : NoHandF f)
    (hn : NoHandAll s) (h : updConn s c f = some s') : NoHandAll s' := by
  obtain ⟨k, k', hk, hfk, rfl⟩ := updConn_some h
  intro c' x hx
  rcases getElem?_set_cases hk hx with ⟨_, rfl⟩ | ⟨_, hx'⟩
  · exact hf k x hfk (hn c k hk)
  · exact hn c' x hx'

theorem nohand_set_close {s : State} {c : Cid} {k : Conn} (hn : NoHandAll s) (hk : s.conns[c]? = some k) :
    ∀ (c' : Nat) (x : Conn), (s.conns.set c (cCloseByIdles k))[c']? = some x → NoHand x := by
  intro c' x hx
  rcases getElem?_set_cases hk hx with ⟨_, rfl⟩ | ⟨_, hx'⟩
  · exact hn c k hk
  · exact hn c' x hx'

theorem nohand_notifyAll {s : State} (hn : NoHandAll s) : NoHandAll (notifyAll s) := by
  intro c x hx
  obtain ⟨k, hk, rfl⟩ := map_notify_get hx
  intro q hq
  rw [(cNotify_keeps k).1] at hq
  exact hn c k hk q hq

/-- without a pool, no action hands a request to a worker -/
theorem nohand_step {cfg : Cfg} (hpool : cfg.pool = none) {s s' : State} (a : Action)
    (hn : NoHandAll s) (h : step cfg s a = some s') : NoHandAll s' := by
  cases a with
  | connect =>
    simp only [step, Option.some.injEq] at h; subst h
    intro c x hx
    by_cases hlt : c < s.conns.length
    · rw [List.getElem?_append_left hlt] at hx; exact hn c x hx
    · rw [List.getElem?_append_right (Nat.le_of_not_lt hlt)] at hx
      cases hcl : c - s.conns.length with
      | zero => rw [hcl] at hx; simp at hx; subst hx; intro q hq; simp [Conn.new] at hq
      | succ n => rw [hcl] at hx; simp at hx
  | send c r => exact nohand_updConn (nhf_cSend false r) hn h
  | sendNR c r => exact nohand_updConn (nhf_cSend true r) hn h
  | accept c =>
    simp only [step] at h
    split at h
    · exact nohand_updConn nhf_cAccept hn h
    · contradiction
  | register c => exact nohand_updConn nhf_cRegister hn h
  | stamp c => exact nohand_updConn nhf_cStamp hn h
  | read c n => exact nohand_updConn (nhf_cRead n) hn h
  | readErr c f => exact nohand_updConn (nhf_cReadErr _ _ f) hn h
  | age c => exact nohand_updConn nhf_cAge hn h
  | dispatch c => exact nohand_updConn (nhf_cDispatch _) hn h
  | enqueue c => simp [step, hpool] at h
  | pTake =>
    simp only [step] at h
    split at h <;> try contradiction
    split at h <;> try contradiction
    simp only [Option.some.injEq] at h; subst h; exact hn
  | pGive => simp [step, hpool] at h
  | start c i =>
    simp only [step] at h
    split at h
    · exact nohand_updConn (nhf_cStartP i) hn h
    · exact nohand_updConn (nhf_cStart i) hn h
  | fin c i =>
    simp only [step] at h
    split at h
    · contradiction
    · exact nohand_updConn (nhf_cFin i) hn h
  | finEarly c i =>
    simp only [step] at h
    split at h
    · exact nohand_updConn (nhf_cFinEarly i) hn h
    · contradiction
  | lateWrite c i => exact nohand_updConn (nhf_cLateWrite i) hn h
  | write c i => exact nohand_updConn (nhf_cWrite i) hn h
  | skip c i => exact nohand_updConn (nhf_cSkip _ i) hn h
  | dec c i => exact nohand_updConn (nhf_cDec i) hn h
  | drainTick c =>
    simp only [step] at h
    split at h <;> try contradiction
    split at h <;> try contradiction
    exact nohand_updConn nhf_cDrainTick hn h
  | drainClose c => exact nohand_updConn nhf_cDrainClose hn h
  | shutdownCall =>
    simp only [step] at h
    split at h <;> try contradiction
    simp only [Option.some.injEq] at h; subst h; exact hn
  | setClosed =>
    simp only [step] at h
    split at h <;> try contradiction
    simp only [Option.some.injEq] at h; subst h; exact hn
  | acceptExit =>
    simp only [step] at h
    split at h <;> try contradiction
    simp only [Option.some.injEq] at h; subst h; exact hn
  | relCall =>
    simp only [step] at h
    split at h <;> try contradiction
    simp only [Option.some.injEq] at h; subst h; exact hn
  | pStop =>
    simp only [step] at h
    split at h <;> try contradiction
    simp only [Option.some.injEq] at h; subst h; exact hn
  | relRet =>
    simp only [step] at h
    split at h <;> try contradiction
    simp only [Option.some.injEq] at h; subst h; exact hn
  | closeMsg =>
    simp only [step] at h
    split at h <;> try contradiction
    split at h <;> try contradiction
    simp only [Option.some.injEq] at h; subst h; exact nohand_notifyAll hn
  | onShutdownRet =>
    simp only [step] at h
    split at h <;> try contradiction
    simp only [Option.some.injEq] at h; subst h; exact hn
  | ciBegin =>
    simp only [step] at h
    split at h <;> try contradiction
    simp only [Option.some.injEq] at h; subst h
    by_cases hl : s.listenClosed = 1
    · simp only [hl, if_true]; exact nohand_notifyAll hn
    · simp only [hl, if_false]; exact hn
  | ciVisit c =>
    simp only [step] at h
    split at h <;> try contradiction
    split at h <;> try contradiction
    split at h <;> try contradiction
    rename_i k hk
    split at h
    · simp only [Option.some.injEq] at h; subst h; exact hn
    · split at h
      · simp only [Option.some.injEq] at h; subst h; exact hn
      · split at h
        · simp only [Option.some.injEq] at h; subst h; exact hn
        · simp only [Option.some.injEq] at h; subst h; exact nohand_set_close hn hk
        · simp only [Option.some.injEq] at h; subst h; exact hn
  | ciClose =>
    simp only [step] at h
    split at h <;> try contradiction
    split at h <;> try contradiction
    split at h <;> try contradiction
    rename_i k hk
    simp only [Option.some.injEq] at h; subst h
    exact nohand_set_close hn hk
  | ciEnd =>
    simp only [step] at h
    split at h <;> try contradiction
    split at h <;> try contradiction
    simp only [Option.some.injEq] at h; subst h; exact hn
  | ctxExpire =>
    simp only [step] at h
    split at h <;> try contradiction
    simp only [Option.some.injEq] at h; subst h; exact hn
  | recvRsp c i => exact nohand_updConn (nhf_cRecvRsp i) hn h
  | recvMsg c => exact nohand_updConn nhf_cRecvMsg hn h
  | recvEof c => exact nohand_updConn nhf_cRecvEof hn h

theorem nohand_reachable {cfg : Cfg} (hpool : cfg.pool = none) {s : State} (hr : Reachable cfg s) :
    NoHandAll s := by
  induction hr with
  | init => intro c k hk; simp [init] at hk
  | step a _ hs ih => exact nohand_step hpool a ih hs

theorem nopool_never_handed (cfg : Cfg) (hpool : cfg.pool = none) {s : State} (hr : Reachable cfg s)
    (c : Nat) (k : Conn) (hk : s.conns[c]? = some k) (q : Req) (hq : q ∈ k.reqs) (hst : q.st = .handed) :
    False :=
  nohand_reachable hpool hr c k hk q hq hst

end Tars.ServerConn
