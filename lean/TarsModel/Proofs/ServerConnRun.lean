import TarsModel.Proofs.ServerConnDrop

/-!
Helper lemmas for C12, part 5: facts about whole runs — the connection table only moves forward,
a dropped request stays dropped along every continuation, `sendCloseMsg` reaches every registered
open connection, what `CloseIdles` does on an empty table.
-/
namespace Tars.ServerConn

theorem updConn_mono {s s' : State} {c : Cid} {f : Conn → Option Conn} (hg : Good f)
    (h : updConn s c f = some s') : ConnsMono s.conns s'.conns := by
  obtain ⟨k, k', hk, hf, rfl⟩ := updConn_some h
  exact connsMono_set hk (hg.mono k k' hf)

/-- no action ever re-opens a connection, withdraws a notification or un-starts a goroutine -/
theorem step_mono {cfg : Cfg} {s s' : State} (a : Action) (h : step cfg s a = some s') :
    ConnsMono s.conns s'.conns := by
  cases a with
  | connect =>
    simp only [step, Option.some.injEq] at h; subst h; exact connsMono_append _ _
  | send c r => exact updConn_mono (good_cSend r) h
  | accept c =>
    simp only [step] at h
    split at h
    · exact updConn_mono good_cAccept h
    · contradiction
  | register c => exact updConn_mono good_cRegister h
  | stamp c => exact updConn_mono good_cStamp h
  | read c n => exact updConn_mono (good_cRead n) h
  | readErr c f => exact updConn_mono (good_cReadErr _ f) h
  | age c => exact updConn_mono good_cAge h
  | dispatch c => exact updConn_mono (good_cDispatch _) h
  | enqueue c =>
    simp only [step] at h
    split at h <;> try contradiction
    rename_i n q k hp hk
    split at h <;> try contradiction
    rename_i k' i hce
    have hce' : cEnqueued' k = some k' := by simp [cEnqueued', hce]
    split at h
    · simp only [Option.some.injEq] at h; subst h
      exact connsMono_set hk (good_cEnqueued'.mono k k' hce')
    · split at h <;> try contradiction
      simp only [Option.some.injEq] at h; subst h
      exact connsMono_set hk (good_cEnqueued'.mono k k' hce')
  | pTake =>
    simp only [step] at h
    split at h <;> try contradiction
    split at h <;> try contradiction
    simp only [Option.some.injEq] at h; subst h; exact ConnsMono.refl _
  | start c i =>
    simp only [step] at h
    split at h
    · exact updConn_mono (good_cStart i) h
    · split at h <;> try contradiction
      cases hu : updConn s c (cStart i) with
      | none => rw [hu] at h; contradiction
      | some s1 =>
        rw [hu] at h
        simp only [Option.map_some, Option.some.injEq] at h; subst h
        have := updConn_mono (good_cStart i) hu
        exact this
  | fin c i => exact updConn_mono (good_cFin i) h
  | write c i => exact updConn_mono (good_cWrite i) h
  | dec c i => exact updConn_mono (good_cDec i) h
  | drainClose c => exact updConn_mono good_cDrainClose h
  | shutdownCall =>
    simp only [step] at h
    split at h <;> try contradiction
    simp only [Option.some.injEq] at h; subst h; exact ConnsMono.refl _
  | setClosed =>
    simp only [step] at h
    split at h <;> try contradiction
    simp only [Option.some.injEq] at h; subst h; exact ConnsMono.refl _
  | acceptExit =>
    simp only [step] at h
    split at h <;> try contradiction
    simp only [Option.some.injEq] at h; subst h; exact ConnsMono.refl _
  | relCall =>
    simp only [step] at h
    split at h <;> try contradiction
    simp only [Option.some.injEq] at h; subst h; exact ConnsMono.refl _
  | pStop =>
    simp only [step] at h
    split at h <;> try contradiction
    simp only [Option.some.injEq] at h; subst h; exact ConnsMono.refl _
  | relRet =>
    simp only [step] at h
    split at h <;> try contradiction
    simp only [Option.some.injEq] at h; subst h; exact ConnsMono.refl _
  | closeMsg =>
    simp only [step] at h
    split at h <;> try contradiction
    split at h <;> try contradiction
    simp only [Option.some.injEq] at h; subst h; exact connsMono_map_notify _
  | onShutdownRet =>
    simp only [step] at h
    split at h <;> try contradiction
    simp only [Option.some.injEq] at h; subst h; exact ConnsMono.refl _
  | ciBegin =>
    simp only [step] at h
    split at h <;> try contradiction
    simp only [Option.some.injEq] at h; subst h
    by_cases hl : s.listenClosed = 1
    · simp only [hl, if_true]; exact connsMono_map_notify _
    · simp only [hl, if_false]; exact ConnsMono.refl _
  | ciVisit c =>
    simp only [step] at h
    split at h <;> try contradiction
    split at h <;> try contradiction
    split at h <;> try contradiction
    rename_i k hk
    split at h
    · simp only [Option.some.injEq] at h; subst h; exact ConnsMono.refl _
    · split at h
      · simp only [Option.some.injEq] at h; subst h; exact ConnsMono.refl _
      · split at h
        · simp only [Option.some.injEq] at h; subst h; exact ConnsMono.refl _
        · simp only [Option.some.injEq] at h; subst h
          exact connsMono_set hk (connMono_cCloseByIdles k)
        · simp only [Option.some.injEq] at h; subst h; exact ConnsMono.refl _
  | ciClose =>
    simp only [step] at h
    split at h <;> try contradiction
    split at h <;> try contradiction
    split at h <;> try contradiction
    rename_i k hk
    simp only [Option.some.injEq] at h; subst h
    exact connsMono_set hk (connMono_cCloseByIdles k)
  | ciEnd =>
    simp only [step] at h
    split at h <;> try contradiction
    split at h <;> try contradiction
    simp only [Option.some.injEq] at h; subst h; exact ConnsMono.refl _
  | ctxExpire =>
    simp only [step] at h
    split at h <;> try contradiction
    simp only [Option.some.injEq] at h; subst h; exact ConnsMono.refl _
  | recvRsp c i => exact updConn_mono (good_cRecvRsp i) h
  | recvMsg c => exact updConn_mono good_cRecvMsg h
  | recvEof c => exact updConn_mono good_cRecvEof h

theorem runFrom_mono {cfg : Cfg} {acts : List Action} : ∀ {s s' : State},
    runFrom cfg s acts = some s' → ConnsMono s.conns s'.conns := by
  induction acts with
  | nil => intro s s' h; simp [runFrom] at h; subst h; exact ConnsMono.refl _
  | cons a as ih =>
    intro s s' h
    simp only [runFrom] at h
    split at h <;> try contradiction
    rename_i s1 hs1
    exact (step_mono a hs1).trans (ih h)

theorem runFrom_append {cfg : Cfg} {a b : List Action} : ∀ {s s' : State},
    runFrom cfg s (a ++ b) = some s' → ∃ m, runFrom cfg s a = some m ∧ runFrom cfg m b = some s' := by
  induction a with
  | nil => intro s s' h; exact ⟨s, rfl, h⟩
  | cons x xs ih =>
    intro s s' h
    simp only [List.cons_append, runFrom] at h ⊢
    split at h <;> try contradiction
    rename_i s1 hs1
    obtain ⟨m, h1, h2⟩ := ih h
    exact ⟨m, by simp [h1], h2⟩

/-- a dropped request stays dropped along every continuation -/
theorem dropped_run {cfg : Cfg} {n qc : Nat} (hpool : cfg.pool = some (n, qc)) {c i : Nat}
    {acts : List Action} : ∀ {s s' : State}, Reachable cfg s → Dropped s c i →
      runFrom cfg s acts = some s' → Dropped s' c i := by
  induction acts with
  | nil => intro s s' _ hd h; simp [runFrom] at h; subst h; exact hd
  | cons a as ih =>
    intro s s' hr hd h
    simp only [runFrom] at h
    split at h <;> try contradiction
    rename_i s1 hs1
    exact ih (Reachable.step a hr hs1) (dropped_step hpool a (ginv_reachable hr) hd hs1) h

/-- what `sendCloseMsg` does to one table entry -/
theorem notifyAll_notified {s : State} {c : Nat} {k : Conn} (hk : s.conns[c]? = some k)
    (hr : k.registered = true) (ho : k.srvClosed = false) :
    ∃ k', (notifyAll s).conns[c]? = some k' ∧ k'.notified = true :=
  ⟨cNotify k, notifyAll_get hk, cNotify_notified hr ho⟩

theorem registeredIds_notifyAll (s : State) : registeredIds (notifyAll s) = registeredIds s := by
  unfold registeredIds notifyAll
  simp only [List.length_map]
  apply List.filter_congr
  intro c _
  rw [List.getElem?_map]
  cases s.conns[c]? with
  | none => rfl
  | some k => simp [(cNotify_keeps k).2.2]

end Tars.ServerConn
