/-
  Proofs/HealthInvA.lean — invariant A of the failover model: the health record of every endpoint
  agrees with what the log says (failures since reinstatement, consecutive failures, time of the
  last success), blocked endpoints are outside the rotation, and every `blocked` event in the log
  was preceded by at least two failures since the last reinstatement.
-/
import TarsModel.Proofs.Health

namespace Tars.Health
open Tars

theorem mem_selAdd (l : List Nat) (ep e : Nat) : e ∈ selAdd l ep ↔ e ∈ l ∨ e = ep := by
  unfold selAdd
  by_cases hc : l.contains ep = true
  · simp only [hc, if_true]
    constructor
    · exact Or.inl
    · rintro (h | h)
      · exact h
      · rw [h]; simpa using hc
  · have hc' : ep ∉ l := by simpa using hc
    simp [hc']

theorem nodup_selAdd (l : List Nat) (ep : Nat) (h : l.Nodup) : (selAdd l ep).Nodup := by
  unfold selAdd
  by_cases hc : l.contains ep = true
  · simp only [hc, if_true]; exact h
  · have hc' : ep ∉ l := by simpa using hc
    rw [if_neg hc, List.nodup_append]
    refine ⟨h, by simp, ?_⟩
    intro a ha b hb
    simp at hb
    rw [hb]
    intro hab
    exact hc' (hab ▸ ha)

theorem selRefresh_aux (eps : List Nat) : ∀ acc : List Nat, acc.Nodup →
    (eps.foldl selAdd acc).Nodup ∧ ∀ e, e ∈ eps.foldl selAdd acc ↔ e ∈ acc ∨ e ∈ eps := by
  induction eps with
  | nil => intro acc h; simp [h]
  | cons x xs ih =>
    intro acc h
    have := ih (selAdd acc x) (nodup_selAdd acc x h)
    refine ⟨this.1, ?_⟩
    intro e
    rw [List.foldl_cons, this.2 e, mem_selAdd]
    simp only [List.mem_cons]
    constructor
    · rintro ((h1 | h1) | h1)
      · exact Or.inl h1
      · exact Or.inr (Or.inl h1)
      · exact Or.inr (Or.inr h1)
    · rintro (h1 | h1 | h1)
      · exact Or.inl (Or.inl h1)
      · exact Or.inl (Or.inr h1)
      · exact Or.inr h1

theorem nodup_selRefresh (eps : List Nat) : (selRefresh eps).Nodup := (selRefresh_aux eps [] List.nodup_nil).1

theorem mem_selRefresh (eps : List Nat) (e : Nat) : e ∈ selRefresh eps ↔ e ∈ eps := by
  have := (selRefresh_aux eps [] List.nodup_nil).2 e
  simpa [selRefresh] using this

/-- what must hold at a `blocked` event -/
def PBlock (e : Event) (pre : List Event) : Prop := ∀ ep t, e = .blocked ep t → 2 ≤ failsSince pre ep

structure InvA (s : Mgr) : Prop where
  fc : ∀ ep, (s.recs ep).failCount = failsSince s.log ep
  lfc : ∀ ep, (s.recs ep).lastFailCount = streak s.log ep
  lfcLe : ∀ ep, (s.recs ep).lastFailCount ≤ (s.recs ep).failCount
  lst : ∀ ep, (s.recs ep).lastSuccessTime = (lastOk s.log ep).getD 0
  closed : ∀ ep, (s.recs ep).closed = false
  fresh : ∀ ep, s.has ep = false → s.recs ep = Rec.fresh
  hasReg : ∀ ep, s.has ep = true → ep ∈ s.reg
  selReg : ∀ ep, ep ∈ s.sel → ep ∈ s.reg
  inflHas : ∀ c, c ∈ s.inflight → s.has c.1 = true
  queueHas : ∀ ep, ep ∈ s.queue → s.has ep = true
  blockedOut : ∀ ep, (s.recs ep).status = false → ep ∉ s.sel
  selNodup : s.sel.Nodup
  activeIn : ∀ ep, ep ∈ s.reg → (s.recs ep).status = true → ep ∈ s.sel
  blockedFails : ∀ ep, (s.recs ep).status = false → 2 ≤ (s.recs ep).failCount
  okBlocks : AllSuffix PBlock s.log

theorem init_invA (stamp : Bool) (reg : List Nat) (now0 : Int) : InvA (init stamp reg now0) := by
  constructor <;> simp [init, Rec.fresh, failsSince, streak, lastOk, AllSuffix]
  · intro ep h; exact (mem_selRefresh reg ep).mp h
  · exact nodup_selRefresh reg
  · intro ep h; exact (mem_selRefresh reg ep).mpr h

theorem touch_invA {s : Mgr} (h : InvA s) {ep : Nat} (hr : ep ∈ s.reg) : InvA (touch s ep) := by
  constructor
  · exact h.fc
  · exact h.lfc
  · exact h.lfcLe
  · exact h.lst
  · exact h.closed
  · intro e he; simp only [touch, upd_apply] at he ⊢; split at he
    · simp at he
    · exact h.fresh e he
  · intro e he; simp only [touch, upd_apply] at he ⊢; split at he
    · rename_i heq; rw [heq]; exact hr
    · exact h.hasReg e he
  · exact h.selReg
  · intro c hc; simp only [touch, upd_apply]; split
    · rfl
    · exact h.inflHas c hc
  · intro e he; simp only [touch, upd_apply]; split
    · rfl
    · exact h.queueHas e he
  · exact h.blockedOut
  · exact h.selNodup
  · exact h.activeIn
  · exact h.blockedFails
  · exact h.okBlocks

theorem recSend_invA {s : Mgr} (h : InvA s) {ep : Nat} (p : Bool) (hh : s.has ep = true) : InvA (recSend s ep p) := by
  have hf := h.fresh
  constructor
  · intro e; simp only [recSend, emit, setRec, upd_apply, sendAdd, failsSince_picked]; split <;> simp_all [h.fc]
  · intro e; simp only [recSend, emit, setRec, upd_apply, sendAdd, streak_picked]; split <;> simp_all [h.lfc]
  · intro e; simp only [recSend, emit, setRec, upd_apply, sendAdd]; split <;> simp_all [h.lfcLe]
  · intro e; simp only [recSend, emit, setRec, upd_apply, sendAdd, lastOk_picked]; split <;> simp_all [h.lst]
  · intro e; simp only [recSend, emit, setRec, upd_apply, sendAdd]; split <;> simp_all [h.closed]
  · intro e he; simp only [recSend, emit, setRec, upd_apply] at he ⊢; split
    · simp_all
    · exact h.fresh e he
  · exact h.hasReg
  · exact h.selReg
  · exact h.inflHas
  · exact h.queueHas
  · intro e; simp only [recSend, emit, setRec, upd_apply, sendAdd]; split
    · rename_i heq; subst heq; exact h.blockedOut e
    · exact h.blockedOut e
  · exact h.selNodup
  · intro e hr; simp only [recSend, emit, setRec, upd_apply, sendAdd]; split
    · rename_i heq; subst heq; exact h.activeIn e hr
    · exact h.activeIn e hr
  · intro e; simp only [recSend, emit, setRec, upd_apply, sendAdd]; split
    · rename_i heq; subst heq; intro hs; have := h.blockedFails e hs; exact this
    · exact h.blockedFails e
  · exact ⟨(by intro e t he; cases he), h.okBlocks⟩


theorem recFail_invA {s : Mgr} (h : InvA s) {ep : Nat} (hh : s.has ep = true) : InvA (recFail s ep) := by
  constructor
  · intro e; simp only [recFail, emit, setRec, upd_apply, failAdd, failsSince_fail]; split
    · rename_i heq; subst heq; simp [h.fc]; omega
    · rename_i hne; have : ¬ ep = e := fun x => hne x.symm
      simp [this, h.fc]
  · intro e; simp only [recFail, emit, setRec, upd_apply, failAdd, streak_fail]; split
    · rename_i heq; subst heq; simp [h.lfc]; omega
    · rename_i hne; have : ¬ ep = e := fun x => hne x.symm
      simp [this, h.lfc]
  · intro e; simp only [recFail, emit, setRec, upd_apply, failAdd]; split
    · have := h.lfcLe ep; simp; omega
    · exact h.lfcLe e
  · intro e; simp only [recFail, emit, setRec, upd_apply, failAdd, lastOk_fail]; split
    · rename_i heq; subst heq; exact h.lst e
    · exact h.lst e
  · intro e; simp only [recFail, emit, setRec, upd_apply, failAdd]; split
    · exact h.closed ep
    · exact h.closed e
  · intro e he; simp only [recFail, emit, setRec, upd_apply] at he ⊢; split
    · simp_all
    · exact h.fresh e he
  · exact h.hasReg
  · exact h.selReg
  · exact h.inflHas
  · exact h.queueHas
  · intro e; simp only [recFail, emit, setRec, upd_apply, failAdd]; split
    · rename_i heq; subst heq; exact h.blockedOut e
    · exact h.blockedOut e
  · exact h.selNodup
  · intro e hr; simp only [recFail, emit, setRec, upd_apply, failAdd]; split
    · rename_i heq; subst heq; exact h.activeIn e hr
    · exact h.activeIn e hr
  · intro e; simp only [recFail, emit, setRec, upd_apply, failAdd]; split
    · rename_i heq; subst heq; intro hs; have := h.blockedFails e hs; simp; omega
    · exact h.blockedFails e
  · exact ⟨(by intro e t he; cases he), h.okBlocks⟩

theorem recOk_invA {s : Mgr} (h : InvA s) {ep : Nat} (hh : s.has ep = true) : InvA (recOk s ep) := by
  constructor
  · intro e; simp only [recOk, emit, setRec, upd_apply, successAdd, failsSince_ok]; split
    · rename_i heq; subst heq; exact h.fc e
    · exact h.fc e
  · intro e; simp only [recOk, emit, setRec, upd_apply, successAdd, streak_ok]; split
    · rename_i heq; subst heq; simp
    · rename_i hne; have : ¬ ep = e := fun x => hne x.symm
      simp [this, h.lfc]
  · intro e; simp only [recOk, emit, setRec, upd_apply, successAdd]; split
    · simp
    · exact h.lfcLe e
  · intro e; simp only [recOk, emit, setRec, upd_apply, successAdd, lastOk_ok]; split
    · rename_i heq; subst heq; simp
    · rename_i hne; have : ¬ ep = e := fun x => hne x.symm
      simp [this, h.lst]
  · intro e; simp only [recOk, emit, setRec, upd_apply, successAdd]; split
    · exact h.closed ep
    · exact h.closed e
  · intro e he; simp only [recOk, emit, setRec, upd_apply] at he ⊢; split
    · simp_all
    · exact h.fresh e he
  · exact h.hasReg
  · exact h.selReg
  · exact h.inflHas
  · exact h.queueHas
  · intro e; simp only [recOk, emit, setRec, upd_apply, successAdd]; split
    · rename_i heq; subst heq; exact h.blockedOut e
    · exact h.blockedOut e
  · exact h.selNodup
  · intro e hr; simp only [recOk, emit, setRec, upd_apply, successAdd]; split
    · rename_i heq; subst heq; exact h.activeIn e hr
    · exact h.activeIn e hr
  · intro e; simp only [recOk, emit, setRec, upd_apply, successAdd]; split
    · rename_i heq; subst heq; intro hs; have := h.blockedFails e hs; exact this
    · exact h.blockedFails e
  · exact ⟨(by intro e t he; cases he), h.okBlocks⟩

theorem reinstate_recOk_invA {s : Mgr} (h : InvA s) {ep : Nat} (hh : s.has ep = true) :
    InvA (recOk (reinstate s ep) ep) := by
  have hreg := h.hasReg ep hh
  constructor
  · intro e; simp only [recOk, reinstate, emit, addAliveEp, setRec, upd_apply, reset, successAdd,
      failsSince_ok, failsSince_reinst]; split
    · rename_i heq; subst heq; simp
    · rename_i hne; have : ¬ ep = e := fun x => hne x.symm
      simp [this, h.fc]
  · intro e; simp only [recOk, reinstate, emit, addAliveEp, setRec, upd_apply, reset, successAdd,
      streak_ok, streak_reinst]; split
    · rename_i heq; subst heq; simp
    · rename_i hne; have : ¬ ep = e := fun x => hne x.symm
      simp [this, h.lfc]
  · intro e; simp only [recOk, reinstate, emit, addAliveEp, setRec, upd_apply, reset, successAdd]; split
    · simp
    · exact h.lfcLe e
  · intro e; simp only [recOk, reinstate, emit, addAliveEp, setRec, upd_apply, reset, successAdd,
      lastOk_ok, lastOk_reinst]; split
    · rename_i heq; subst heq; simp
    · rename_i hne; have : ¬ ep = e := fun x => hne x.symm
      simp [this, h.lst]
  · intro e; simp only [recOk, reinstate, emit, addAliveEp, setRec, upd_apply, reset, successAdd]; split
    · exact h.closed ep
    · exact h.closed e
  · intro e he; simp only [recOk, reinstate, emit, addAliveEp, setRec, upd_apply] at he ⊢; split
    · simp_all
    · exact h.fresh e he
  · exact h.hasReg
  · intro e he
    simp only [recOk, reinstate, emit, addAliveEp, setRec] at he
    rcases (mem_selAdd _ _ _).mp he with h1 | h1
    · exact h.selReg e h1
    · rw [h1]; exact hreg
  · exact h.inflHas
  · exact h.queueHas
  · intro e; simp only [recOk, reinstate, emit, addAliveEp, setRec, upd_apply, reset, successAdd]; split
    · simp
    · intro hst hm
      have := h.blockedOut e hst
      rename_i hne
      rcases (mem_selAdd _ _ _).mp hm with h1 | h1
      · exact this h1
      · exact hne h1
  · exact nodup_selAdd _ _ h.selNodup
  · intro e hr; simp only [recOk, reinstate, emit, addAliveEp, setRec, upd_apply, reset, successAdd]; split
    · rename_i heq; subst heq; intro _; exact (mem_selAdd _ _ _).mpr (Or.inr rfl)
    · intro hs; exact (mem_selAdd _ _ _).mpr (Or.inl (h.activeIn e hr hs))
  · intro e; simp only [recOk, reinstate, emit, addAliveEp, setRec, upd_apply, reset, successAdd]; split
    · simp
    · exact h.blockedFails e
  · exact ⟨(by intro e t he; cases he), (by intro e t he; cases he), h.okBlocks⟩

/-- changing only the list of open calls -/
theorem inflight_invA {s : Mgr} (h : InvA s) (l : List (Nat × Bool)) (hl : ∀ c, c ∈ l → s.has c.1 = true) :
    InvA { s with inflight := l } :=
  { fc := h.fc, lfc := h.lfc, lfcLe := h.lfcLe, lst := h.lst, closed := h.closed, fresh := h.fresh, hasReg := h.hasReg,
    selReg := h.selReg, inflHas := hl, queueHas := h.queueHas, blockedOut := h.blockedOut, selNodup := h.selNodup, activeIn := h.activeIn, blockedFails := h.blockedFails, okBlocks := h.okBlocks }

theorem popProbe_invA {s : Mgr} (h : InvA s) {ep : Nat} {q : List Nat} (hq : s.queue = ep :: q) : InvA (popProbe s ep q) := by
  have hh : s.has ep = true := h.queueHas ep (by rw [hq]; exact List.mem_cons_self)
  have hsub : ∀ e, e ∈ q → s.has e = true := fun e he => h.queueHas e (by rw [hq]; exact List.mem_cons_of_mem _ he)
  unfold popProbe
  cases hst : s.stamp
  · simp only [Bool.false_eq_true, if_false]
    exact { fc := h.fc, lfc := h.lfc, lfcLe := h.lfcLe, lst := h.lst, closed := h.closed, fresh := h.fresh, hasReg := h.hasReg,
            selReg := h.selReg, inflHas := h.inflHas, queueHas := hsub, blockedOut := h.blockedOut, selNodup := h.selNodup, activeIn := h.activeIn, blockedFails := h.blockedFails, okBlocks := h.okBlocks }
  · simp only [if_true]
    constructor
    · intro e; simp only [setRec, upd_apply]; split
      · rename_i heq; subst heq; exact h.fc e
      · exact h.fc e
    · intro e; simp only [setRec, upd_apply]; split
      · rename_i heq; subst heq; exact h.lfc e
      · exact h.lfc e
    · intro e; simp only [setRec, upd_apply]; split
      · rename_i heq; subst heq; exact h.lfcLe e
      · exact h.lfcLe e
    · intro e; simp only [setRec, upd_apply]; split
      · rename_i heq; subst heq; exact h.lst e
      · exact h.lst e
    · intro e; simp only [setRec, upd_apply]; split
      · rename_i heq; subst heq; exact h.closed e
      · exact h.closed e
    · intro e he; simp only [setRec, upd_apply] at he ⊢; split
      · simp_all
      · exact h.fresh e he
    · exact h.hasReg
    · exact h.selReg
    · exact h.inflHas
    · exact hsub
    · intro e; simp only [setRec, upd_apply]; split
      · rename_i heq; subst heq; exact h.blockedOut e
      · exact h.blockedOut e
    · exact h.selNodup
    · intro e hr; simp only [setRec, upd_apply]; split
      · rename_i heq; subst heq; exact h.activeIn e hr
      · exact h.activeIn e hr
    · intro e; simp only [setRec, upd_apply]; split
      · rename_i heq; subst heq; exact h.blockedFails e
      · exact h.blockedFails e
    · exact h.okBlocks


/-- replacing the record of an existing adapter by one that agrees on everything the log determines -/
theorem setRec_invA {s : Mgr} (h : InvA s) {ep : Nat} (r' : Rec) (hh : s.has ep = true)
    (h1 : r'.failCount = (s.recs ep).failCount) (h2 : r'.lastFailCount = (s.recs ep).lastFailCount)
    (h3 : r'.lastSuccessTime = (s.recs ep).lastSuccessTime) (h4 : r'.closed = (s.recs ep).closed)
    (h5 : r'.status = false → ep ∉ s.sel) (h6 : r'.status = true → ep ∈ s.reg → ep ∈ s.sel)
    (h7 : r'.status = false → 2 ≤ r'.failCount) : InvA (setRec s ep r') := by
  constructor
  · intro e; simp only [setRec, upd_apply]; split
    · rename_i heq; subst heq; rw [h1]; exact h.fc e
    · exact h.fc e
  · intro e; simp only [setRec, upd_apply]; split
    · rename_i heq; subst heq; rw [h2]; exact h.lfc e
    · exact h.lfc e
  · intro e; simp only [setRec, upd_apply]; split
    · rename_i heq; subst heq; rw [h1, h2]; exact h.lfcLe e
    · exact h.lfcLe e
  · intro e; simp only [setRec, upd_apply]; split
    · rename_i heq; subst heq; rw [h3]; exact h.lst e
    · exact h.lst e
  · intro e; simp only [setRec, upd_apply]; split
    · rename_i heq; subst heq; rw [h4]; exact h.closed e
    · exact h.closed e
  · intro e he; simp only [setRec, upd_apply] at he ⊢; split
    · simp_all
    · exact h.fresh e he
  · exact h.hasReg
  · exact h.selReg
  · exact h.inflHas
  · exact h.queueHas
  · intro e; simp only [setRec, upd_apply]; split
    · rename_i heq; subst heq; exact h5
    · exact h.blockedOut e
  · exact h.selNodup
  · intro e hr; simp only [setRec, upd_apply]; split
    · rename_i heq; subst heq; exact fun hs => h6 hs hr
    · exact h.activeIn e hr
  · intro e; simp only [setRec, upd_apply]; split
    · rename_i heq; subst heq; exact h7
    · exact h.blockedFails e
  · exact h.okBlocks

/-- `checkStatus` takes `ep` out: its record becomes blocked, it leaves `activeEp` and the selectors -/
theorem block_invA {s : Mgr} (h : InvA s) {ep : Nat} (r' : Rec) (hh : s.has ep = true)
    (h1 : r'.failCount = (s.recs ep).failCount) (h2 : r'.lastFailCount = (s.recs ep).lastFailCount)
    (h3 : r'.lastSuccessTime = (s.recs ep).lastSuccessTime) (h4 : r'.closed = (s.recs ep).closed)
    (h5 : r'.status = false) (h7 : 2 ≤ r'.failCount) :
    InvA { setRec s ep r' with active := s.active.erase ep, sel := s.sel.erase ep } := by
  constructor
  · intro e; simp only [setRec, upd_apply]; split
    · rename_i heq; subst heq; rw [h1]; exact h.fc e
    · exact h.fc e
  · intro e; simp only [setRec, upd_apply]; split
    · rename_i heq; subst heq; rw [h2]; exact h.lfc e
    · exact h.lfc e
  · intro e; simp only [setRec, upd_apply]; split
    · rename_i heq; subst heq; rw [h1, h2]; exact h.lfcLe e
    · exact h.lfcLe e
  · intro e; simp only [setRec, upd_apply]; split
    · rename_i heq; subst heq; rw [h3]; exact h.lst e
    · exact h.lst e
  · intro e; simp only [setRec, upd_apply]; split
    · rename_i heq; subst heq; rw [h4]; exact h.closed e
    · exact h.closed e
  · intro e he; simp only [setRec, upd_apply] at he ⊢; split
    · simp_all
    · exact h.fresh e he
  · exact h.hasReg
  · intro e he; exact h.selReg e (List.mem_of_mem_erase he)
  · exact h.inflHas
  · exact h.queueHas
  · intro e; simp only [setRec, upd_apply]; split
    · rename_i heq; subst heq; intro _ hm; exact ((h.selNodup.mem_erase_iff).mp hm).1 rfl
    · intro hs hm; exact h.blockedOut e hs (List.mem_of_mem_erase hm)
  · exact h.selNodup.erase ep
  · intro e hr; simp only [setRec, upd_apply]; split
    · rename_i heq; subst heq; rw [h5]; intro hc; cases hc
    · rename_i hne; intro hs; exact (List.mem_erase_of_ne hne).mpr (h.activeIn e hr hs)
  · intro e; simp only [setRec, upd_apply]; split
    · rename_i heq; subst heq; exact fun _ => h7
    · exact h.blockedFails e
  · exact h.okBlocks

theorem emit_blocked_invA {s : Mgr} (h : InvA s) (ep : Nat) (t : Int) (h2 : 2 ≤ failsSince s.log ep) :
    InvA (emit s (.blocked ep t)) :=
  { fc := by intro e; simp only [emit, failsSince_blocked]; exact h.fc e
    lfc := by intro e; simp only [emit, streak_blocked]; exact h.lfc e
    lfcLe := h.lfcLe
    lst := by intro e; simp only [emit, lastOk_blocked]; exact h.lst e
    closed := h.closed, fresh := h.fresh, hasReg := h.hasReg, selReg := h.selReg, inflHas := h.inflHas,
    queueHas := h.queueHas, blockedOut := h.blockedOut, selNodup := h.selNodup
    activeIn := h.activeIn, blockedFails := h.blockedFails
    okBlocks := ⟨(by intro e t' he; injection he with he1 _; subst he1; exact h2), h.okBlocks⟩ }

theorem enqueue_invA {s : Mgr} (h : InvA s) {ep : Nat} (hh : s.has ep = true) : InvA (enqueue s ep) :=
  { fc := by intro e; simp only [enqueue, emit, failsSince_grant]; exact h.fc e
    lfc := by intro e; simp only [enqueue, emit, streak_grant]; exact h.lfc e
    lfcLe := h.lfcLe
    lst := by intro e; simp only [enqueue, emit, lastOk_grant]; exact h.lst e
    closed := h.closed, fresh := h.fresh, hasReg := h.hasReg, selReg := h.selReg, inflHas := h.inflHas
    queueHas := by
      intro e he
      simp only [enqueue, emit] at he
      rcases List.mem_append.mp he with h1 | h1
      · exact h.queueHas e h1
      · simp at h1; rw [h1]; exact hh
    blockedOut := h.blockedOut, selNodup := h.selNodup, activeIn := h.activeIn, blockedFails := h.blockedFails
    okBlocks := ⟨(by intro e t' he; cases he), h.okBlocks⟩ }

theorem checkOne_invA (conn : List Nat) {s : Mgr} (h : InvA s) (ep : Nat) : InvA (checkOne conn s ep) := by
  unfold checkOne
  cases hh : s.has ep
  · simpa using h
  · simp only [if_true]
    have hfr := checkActive_frame s.now (conn.contains ep) (s.recs ep)
    have hmid : InvA (if (checkActive s.now (conn.contains ep) (s.recs ep)).firstTime = true
        then takeOut (setRec s ep (checkActive s.now (conn.contains ep) (s.recs ep)).r) ep
        else setRec s ep (checkActive s.now (conn.contains ep) (s.recs ep)).r) := by
      cases hft : (checkActive s.now (conn.contains ep) (s.recs ep)).firstTime
      · simp only [Bool.false_eq_true, if_false]
        have hst := checkActive_notfirst _ _ _ hft
        exact setRec_invA h _ hh hfr.1 hfr.2.1 hfr.2.2.2.2.1 hfr.2.2.2.2.2.2 (fun hf => h.blockedOut ep (hst ▸ hf))
          (fun ht hr => h.activeIn ep hr (hst ▸ ht)) (fun hf => hfr.1 ▸ h.blockedFails ep (hst ▸ hf))
      · simp only [if_true]
        have hf := checkActive_first _ _ _ hft
        have h2 : 2 ≤ failsSince s.log ep := by
          have e1 := h.fc ep
          have e2 := h.lfcLe ep
          have e3 := hf.2.2.2.2
          simp only [Consts.healthFainN, Consts.healthOverN] at e3
          omega
        have hB := block_invA h (checkActive s.now (conn.contains ep) (s.recs ep)).r hh hfr.1 hfr.2.1 hfr.2.2.2.2.1
          hfr.2.2.2.2.2.2 hf.2.1 (by rw [hfr.1, h.fc ep]; exact h2)
        exact emit_blocked_invA hB ep s.now h2
    have hhas : (if (checkActive s.now (conn.contains ep) (s.recs ep)).firstTime = true
        then takeOut (setRec s ep (checkActive s.now (conn.contains ep) (s.recs ep)).r) ep
        else setRec s ep (checkActive s.now (conn.contains ep) (s.recs ep)).r).has ep = true := by
      split <;> exact hh
    generalize (if (checkActive s.now (conn.contains ep) (s.recs ep)).firstTime = true
        then takeOut (setRec s ep (checkActive s.now (conn.contains ep) (s.recs ep)).r) ep
        else setRec s ep (checkActive s.now (conn.contains ep) (s.recs ep)).r) = s2 at hmid hhas ⊢
    split
    · exact enqueue_invA hmid hhas
    · exact hmid

theorem checkStatus_invA (conn : List Nat) {s : Mgr} (h : InvA s) : InvA (checkStatus conn s) := by
  unfold checkStatus
  generalize s.reg = l
  induction l generalizing s with
  | nil => exact h
  | cons x xs ih => exact ih (checkOne_invA conn h x)

theorem startOn_invA {s : Mgr} (h : InvA s) {ep : Nat} (hh : s.has ep = true) (probe sendOk oneway : Bool) :
    InvA (startOn s ep probe sendOk oneway) := by
  unfold startOn
  have hm := recSend_invA h probe hh
  have hh' : (recSend s ep probe).has ep = true := hh
  cases sendOk
  · simpa using recFail_invA hm hh'
  · cases oneway
    · simp only [Bool.not_true, Bool.false_eq_true, if_false]
      apply inflight_invA hm
      intro c hc
      rcases List.mem_append.mp hc with h1 | h1
      · exact hm.inflHas c h1
      · simp at h1; rw [h1]; exact hh'
    · simpa using recOk_invA hm hh'

theorem start_invA {s : Mgr} (h : InvA s) (choice : Nat) (sendOk oneway : Bool) : InvA (start s choice sendOk oneway) := by
  unfold start selectAdapter
  split
  · -- registry empty
    simp only
    exact { fc := h.fc, lfc := h.lfc, lfcLe := h.lfcLe, lst := h.lst, closed := h.closed, fresh := h.fresh,
            hasReg := h.hasReg, selReg := h.selReg, inflHas := h.inflHas, queueHas := h.queueHas,
            blockedOut := h.blockedOut, selNodup := h.selNodup, activeIn := h.activeIn,
            blockedFails := h.blockedFails,
            okBlocks := ⟨(by intro e t he; cases he), h.okBlocks⟩ }
  · rename_i r0 rs hreg
    split
    · rename_i ep q hq
      simp only
      have hp := popProbe_invA h hq
      have hh : (popProbe s ep q).has ep = true := by
        have := h.queueHas ep (by rw [hq]; exact List.mem_cons_self)
        unfold popProbe; split <;> simpa [setRec] using this
      exact startOn_invA hp hh _ _ _
    · split
      · rename_i e0 es hsel
        simp only
        have hmem : s.sel.getD (choice % s.sel.length) e0 ∈ s.sel := getD_mod_mem _ _ _ (by rw [hsel]; simp)
        have ht := touch_invA h (h.selReg _ hmem)
        exact startOn_invA ht (by simp [touch]) _ _ _
      · simp only
        have hmem : s.reg.getD (choice % s.reg.length) r0 ∈ s.reg := getD_mod_mem _ _ _ (by rw [hreg]; simp)
        have ht := touch_invA h hmem
        exact startOn_invA ht (by simp [touch]) _ _ _

theorem finishCall_invA {s : Mgr} (h : InvA s) {ep : Nat} (hh : s.has ep = true) (probe ok : Bool) :
    InvA (finishCall s ep probe ok) := by
  unfold finishCall
  cases ok
  · simpa using recFail_invA h hh
  · cases probe
    · simpa using recOk_invA h hh
    · simpa using reinstate_recOk_invA h hh

theorem finish_invA {s : Mgr} (h : InvA s) (k : Nat) (ok : Bool) : InvA (finish s k ok) := by
  unfold finish
  split
  · exact h
  · rename_i c0 cs hin
    simp only
    have hmem : s.inflight.getD (k % s.inflight.length) c0 ∈ s.inflight := getD_mod_mem _ _ _ (by rw [hin]; simp)
    have h1 : InvA { s with inflight := s.inflight.eraseIdx (k % s.inflight.length) } :=
      inflight_invA h _ (fun c hc => h.inflHas c (List.mem_of_mem_eraseIdx hc))
    exact finishCall_invA h1 (h.inflHas _ hmem) _ _

theorem advance_invA {s : Mgr} (h : InvA s) (d : Nat) : InvA { s with now := s.now + d } :=
  { fc := h.fc, lfc := h.lfc, lfcLe := h.lfcLe, lst := h.lst, closed := h.closed, fresh := h.fresh, hasReg := h.hasReg,
    selReg := h.selReg, inflHas := h.inflHas, queueHas := h.queueHas, blockedOut := h.blockedOut,
    selNodup := h.selNodup, activeIn := h.activeIn, blockedFails := h.blockedFails, okBlocks := h.okBlocks }

theorem step_invA {s : Mgr} (h : InvA s) (a : Action) : InvA (step s a) := by
  cases a with
  | advance d => exact advance_invA h d
  | checkStatus conn => exact checkStatus_invA conn h
  | start c so ow => exact start_invA h c so ow
  | finish k ok => exact finish_invA h k ok

theorem run_invA {s : Mgr} (h : InvA s) (hist : List Action) : InvA (run s hist) := by
  unfold run
  induction hist generalizing s with
  | nil => exact h
  | cons a as ih => exact ih (step_invA h a)

end Tars.Health
