import TarsModel.Proofs.ServerConnKick

/-!
Helper lemmas for C12, part 7: the accounting of `numInvoke` on the handler's early return (one-way
requests, empty responses). With the deferred decrement no handler ever ends past its decrement
(`leaked` is unreachable), so a connection whose handlers have all returned has `numInvoke = 0`;
without it a leaked request keeps its connection open for ever (`Leaked`).
-/
namespace Tars.ServerConn

/-! ### with the deferred decrement no request is ever in the state `leaked` -/

def NoLeak (k : Conn) : Prop := ∀ q ∈ k.reqs, q.st ≠ .leaked
def NoLeakF (f : Conn → Option Conn) : Prop := ∀ k k', f k = some k' → NoLeak k → NoLeak k'

theorem nlf_of_reqs_eq {f : Conn → Option Conn} (h : ∀ k k', f k = some k' → k'.reqs = k.reqs) : NoLeakF f := by
  intro k k' hf hn q hq
  rw [h k k' hf] at hq
  exact hn q hq

theorem nlf_cSetSt (i : Nat) (frm : HSt) (to : Conn → HSt) (hto : ∀ k, to k ≠ .leaked) :
    NoLeakF (fun k => cSetSt i frm (to k) k) := by
  intro k k' h hn q hq
  simp only [cSetSt] at h
  split at h <;> try contradiction
  split at h <;> try contradiction
  simp only [Option.some.injEq] at h; subst h
  rcases List.mem_or_eq_of_mem_set hq with hq | hq
  · exact hn q hq
  · subst hq; exact hto k

theorem nlf_cSend (nr : Bool) (r : Rid) : NoLeakF (cSend nr r) := nlf_of_reqs_eq (by
  intro k k' h; unfold cSend at h; split at h <;> try contradiction
  simp only [Option.some.injEq] at h; subst h; rfl)
theorem nlf_cAccept : NoLeakF cAccept := nlf_of_reqs_eq (by
  intro k k' h; unfold cAccept at h; split at h <;> try contradiction
  simp only [Option.some.injEq] at h; subst h; rfl)
theorem nlf_cRegister : NoLeakF cRegister := nlf_of_reqs_eq (by
  intro k k' h; unfold cRegister at h; split at h <;> try contradiction
  simp only [Option.some.injEq] at h; subst h; rfl)
theorem nlf_cStamp : NoLeakF cStamp := nlf_of_reqs_eq (by
  intro k k' h; unfold cStamp at h; split at h <;> try contradiction
  simp only [Option.some.injEq] at h; subst h; rfl)
theorem nlf_cRead (n : Nat) : NoLeakF (cRead n) := nlf_of_reqs_eq (by
  intro k k' h; unfold cRead at h; split at h <;> try contradiction
  split at h <;> try contradiction
  simp only [Option.some.injEq] at h; subst h; rfl)
theorem nlf_cReadErr (p b f : Bool) : NoLeakF (cReadErr p b f) := nlf_of_reqs_eq (by
  intro k k' h; unfold cReadErr at h; split at h <;> try contradiction
  split at h <;> (simp only [Option.some.injEq] at h; subst h; rfl))
theorem nlf_cDrainTick : NoLeakF cDrainTick := nlf_of_reqs_eq (by
  intro k k' h; unfold cDrainTick at h; split at h <;> try contradiction
  simp only [Option.some.injEq] at h; subst h; rfl)
theorem nlf_cAge : NoLeakF cAge := nlf_of_reqs_eq (by
  intro k k' h; unfold cAge at h; simp only [Option.some.injEq] at h; subst h; rfl)
theorem nlf_cDrainClose : NoLeakF cDrainClose := nlf_of_reqs_eq (by
  intro k k' h; unfold cDrainClose at h; split at h <;> try contradiction
  split at h <;> try contradiction
  simp only [Option.some.injEq] at h; subst h; rfl)
theorem nlf_cRecvRsp (i : Nat) : NoLeakF (cRecvRsp i) := nlf_of_reqs_eq (by
  intro k k' h; unfold cRecvRsp at h; split at h <;> try contradiction
  split at h <;> try contradiction
  simp only [Option.some.injEq] at h; subst h; rfl)
theorem nlf_cRecvMsg : NoLeakF cRecvMsg := nlf_of_reqs_eq (by
  intro k k' h; unfold cRecvMsg at h; split at h <;> try contradiction
  simp only [Option.some.injEq] at h; subst h; rfl)
theorem nlf_cRecvEof : NoLeakF cRecvEof := nlf_of_reqs_eq (by
  intro k k' h; unfold cRecvEof at h; split at h <;> try contradiction
  simp only [Option.some.injEq] at h; subst h; rfl)
theorem nlf_cEnqueued' : NoLeakF cEnqueued' := nlf_of_reqs_eq (by
  intro k k' h; unfold cEnqueued' cEnqueued at h; split at h <;> simp at h
  subst h; rfl)
theorem nlf_cDispatch (p : Bool) : NoLeakF (cDispatch p) := by
  intro k k' h hn q hq
  unfold cDispatch at h; split at h <;> try contradiction
  simp only [Option.some.injEq] at h; subst h
  simp at hq
  rcases hq with hq | hq
  · exact hn q hq
  · subst hq; simp
theorem nlf_cStart (i : Nat) : NoLeakF (cStart i) := nlf_cSetSt i .queued (fun _ => .running) (by simp)
theorem nlf_cHand (i : Nat) : NoLeakF (cHand i) := nlf_cSetSt i .queued (fun _ => .handed) (by simp)
theorem nlf_cStartP (i : Nat) : NoLeakF (cStartP i) := nlf_cSetSt i .handed (fun _ => .running) (by simp)
theorem nlf_cFin (i : Nat) : NoLeakF (cFin i) := nlf_cSetSt i .running (fun _ => .finished) (by simp)
theorem nlf_of_imp {f g : Conn → Option Conn} (h : ∀ k k', f k = some k' → g k = some k')
    (hg : NoLeakF g) : NoLeakF f := fun k k' hf => hg k k' (h k k' hf)
theorem nlf_cWrite (i : Nat) : NoLeakF (cWrite i) :=
  nlf_of_imp (cWrite_imp i) (nlf_cSetSt i .finished (fun k => .wrote (!k.srvClosed)) (by simp))
theorem nlf_cSkip (i : Nat) : NoLeakF (cSkip true i) :=
  nlf_of_imp (cSkip_imp true i) (nlf_cSetSt i .finished (fun _ => if true then .wrote true else .leaked)
    (by intro _; simp))
theorem nlf_cDec (i : Nat) : NoLeakF (cDec i) := by
  intro k k' h hn q hq
  unfold cDec at h
  split at h <;> try contradiction
  split at h <;> try contradiction
  simp only [Option.some.injEq] at h; subst h
  rcases List.mem_or_eq_of_mem_set hq with hq | hq
  · exact hn q hq
  · subst hq; simp

theorem nlf_cFinEarly (i : Nat) : NoLeakF (cFinEarly i) := by
  intro k k' h hn q hq
  unfold cFinEarly at h
  split at h <;> try contradiction
  split at h <;> try contradiction
  simp only [Option.some.injEq] at h; subst h
  rcases List.mem_or_eq_of_mem_set hq with hq | hq
  · exact hn q hq
  · subst hq; simp

theorem nlf_cLateWrite (i : Nat) : NoLeakF (cLateWrite i) := by
  intro k k' h hn q hq
  unfold cLateWrite at h
  split at h <;> try contradiction
  split at h <;> try contradiction
  simp only [Option.some.injEq] at h; subst h
  rcases List.mem_or_eq_of_mem_set hq with hq | hq
  · exact hn q hq
  · subst hq; simp

def NoLeakAll (s : State) : Prop := ∀ (c : Nat) (k : Conn), s.conns[c]? = some k → NoLeak k

theorem noleak_updConn {s s' : State} {c : Cid} {f : Conn → Option Conn} (hf : NoLeakF f)
    (hn : NoLeakAll s) (h : updConn s c f = some s') : NoLeakAll s' := by
  obtain ⟨k, k', hk, hfk, rfl⟩ := updConn_some h
  intro c' x hx
  rcases getElem?_set_cases hk hx with ⟨_, rfl⟩ | ⟨_, hx'⟩
  · exact hf k x hfk (hn c k hk)
  · exact hn c' x hx'

theorem noleak_set_close {s : State} {c : Cid} {k : Conn} (hn : NoLeakAll s) (hk : s.conns[c]? = some k) :
    ∀ (c' : Nat) (x : Conn), (s.conns.set c (cCloseByIdles k))[c']? = some x → NoLeak x := by
  intro c' x hx
  rcases getElem?_set_cases hk hx with ⟨_, rfl⟩ | ⟨_, hx'⟩
  · exact hn c k hk
  · exact hn c' x hx'

theorem noleak_notifyAll {s : State} (hn : NoLeakAll s) : NoLeakAll (notifyAll s) := by
  intro c x hx
  obtain ⟨k, hk, rfl⟩ := map_notify_get hx
  intro q hq
  rw [(cNotify_keeps k).1] at hq
  exact hn c k hk q hq

/-- with the deferred decrement no action leaves a handler past its decrement -/
theorem noleak_step {cfg : Cfg} (hd : cfg.decDeferred = true) {s s' : State} (a : Action)
    (hn : NoLeakAll s) (h : step cfg s a = some s') : NoLeakAll s' := by
  cases a with
  | connect =>
    simp only [step, Option.some.injEq] at h; subst h
    intro c x hx
    by_cases hlt : c < s.conns.length
    · rw [List.getElem?_append_left hlt] at hx; exact hn c x hx
    · rw [List.getElem?_append_right (Nat.le_of_not_lt hlt)] at hx
      cases hcl : c - s.conns.length with
      | zero => rw [hcl] at hx; simp at hx; subst hx; intro q hq; simp [Conn.new] at hq
      | succ n => rw [hcl] at hx; simp at hx
  | send c r => exact noleak_updConn (nlf_cSend false r) hn h
  | sendNR c r => exact noleak_updConn (nlf_cSend true r) hn h
  | accept c =>
    simp only [step] at h
    split at h
    · exact noleak_updConn nlf_cAccept hn h
    · contradiction
  | register c => exact noleak_updConn nlf_cRegister hn h
  | stamp c => exact noleak_updConn nlf_cStamp hn h
  | read c n => exact noleak_updConn (nlf_cRead n) hn h
  | readErr c f => exact noleak_updConn (nlf_cReadErr _ _ f) hn h
  | age c => exact noleak_updConn nlf_cAge hn h
  | dispatch c => exact noleak_updConn (nlf_cDispatch _) hn h
  | enqueue c =>
    simp only [step] at h
    split at h <;> try contradiction
    rename_i n q k hp hk
    split at h <;> try contradiction
    rename_i k' i hce
    have hce' : cEnqueued' k = some k' := by simp [cEnqueued', hce]
    have hk' := nlf_cEnqueued' k k' hce' (hn c k hk)
    have hset : ∀ (c' : Nat) (x : Conn), (s.conns.set c k')[c']? = some x → NoLeak x := by
      intro c' x hx
      rcases getElem?_set_cases hk hx with ⟨_, rfl⟩ | ⟨_, hx'⟩
      · exact hk'
      · exact hn c' x hx'
    split at h
    · simp only [Option.some.injEq] at h; subst h; exact hset
    · split at h <;> try contradiction
      simp only [Option.some.injEq] at h; subst h; exact hset
  | pTake =>
    simp only [step] at h
    split at h <;> try contradiction
    split at h <;> try contradiction
    simp only [Option.some.injEq] at h; subst h; exact hn
  | pGive =>
    simp only [step] at h
    split at h <;> try contradiction
    rename_i n q c i hp hh
    split at h <;> try contradiction
    cases hu : updConn s c (cHand i) with
    | none => rw [hu] at h; contradiction
    | some s1 =>
      rw [hu] at h
      simp only [Option.map_some, Option.some.injEq] at h; subst h
      have := noleak_updConn (nlf_cHand i) hn hu
      exact this
  | start c i =>
    simp only [step] at h
    split at h
    · exact noleak_updConn (nlf_cStartP i) hn h
    · exact noleak_updConn (nlf_cStart i) hn h
  | fin c i =>
    simp only [step] at h
    split at h
    · contradiction
    · exact noleak_updConn (nlf_cFin i) hn h
  | finEarly c i =>
    simp only [step] at h
    split at h
    · exact noleak_updConn (nlf_cFinEarly i) hn h
    · contradiction
  | lateWrite c i => exact noleak_updConn (nlf_cLateWrite i) hn h
  | write c i => exact noleak_updConn (nlf_cWrite i) hn h
  | skip c i =>
    simp only [step, hd] at h
    exact noleak_updConn (nlf_cSkip i) hn h
  | dec c i => exact noleak_updConn (nlf_cDec i) hn h
  | drainTick c =>
    simp only [step] at h
    split at h <;> try contradiction
    split at h <;> try contradiction
    exact noleak_updConn nlf_cDrainTick hn h
  | drainClose c => exact noleak_updConn nlf_cDrainClose hn h
  | shutdownCall =>
    simp only [step] at h
    split at h <;> try contradiction
    simp only [Option.some.injEq] at h; subst h; exact hn
  | setClosed =>
    simp only [step] at h
    split at h <;> try contradiction
    simp only [Option.some.injEq] at h; subst h; exact hn
  | acceptExit =>
    simp only [step] at h
    split at h <;> try contradiction
    simp only [Option.some.injEq] at h; subst h; exact hn
  | relCall =>
    simp only [step] at h
    split at h <;> try contradiction
    simp only [Option.some.injEq] at h; subst h; exact hn
  | pStop =>
    simp only [step] at h
    split at h <;> try contradiction
    simp only [Option.some.injEq] at h; subst h; exact hn
  | relRet =>
    simp only [step] at h
    split at h <;> try contradiction
    simp only [Option.some.injEq] at h; subst h; exact hn
  | closeMsg =>
    simp only [step] at h
    split at h <;> try contradiction
    split at h <;> try contradiction
    simp only [Option.some.injEq] at h; subst h; exact noleak_notifyAll hn
  | onShutdownRet =>
    simp only [step] at h
    split at h <;> try contradiction
    simp only [Option.some.injEq] at h; subst h; exact hn
  | ciBegin =>
    simp only [step] at h
    split at h <;> try contradiction
    simp only [Option.some.injEq] at h; subst h
    by_cases hl : s.listenClosed = 1
    · simp only [hl, if_true]; exact noleak_notifyAll hn
    · simp only [hl, if_false]; exact hn
  | ciVisit c =>
    simp only [step] at h
    split at h <;> try contradiction
    split at h <;> try contradiction
    split at h <;> try contradiction
    rename_i k hk
    split at h
    · simp only [Option.some.injEq] at h; subst h; exact hn
    · split at h
      · simp only [Option.some.injEq] at h; subst h; exact hn
      · split at h
        · simp only [Option.some.injEq] at h; subst h; exact hn
        · simp only [Option.some.injEq] at h; subst h; exact noleak_set_close hn hk
        · simp only [Option.some.injEq] at h; subst h; exact hn
  | ciClose =>
    simp only [step] at h
    split at h <;> try contradiction
    split at h <;> try contradiction
    split at h <;> try contradiction
    rename_i k hk
    simp only [Option.some.injEq] at h; subst h
    exact noleak_set_close hn hk
  | ciEnd =>
    simp only [step] at h
    split at h <;> try contradiction
    split at h <;> try contradiction
    simp only [Option.some.injEq] at h; subst h; exact hn
  | ctxExpire =>
    simp only [step] at h
    split at h <;> try contradiction
    simp only [Option.some.injEq] at h; subst h; exact hn
  | recvRsp c i => exact noleak_updConn (nlf_cRecvRsp i) hn h
  | recvMsg c => exact noleak_updConn nlf_cRecvMsg hn h
  | recvEof c => exact noleak_updConn nlf_cRecvEof hn h

theorem noleak_reachable {cfg : Cfg} (hd : cfg.decDeferred = true) {s : State} (hr : Reachable cfg s) :
    NoLeakAll s := by
  induction hr with
  | init => intro c k hk; simp [init] at hk
  | step a _ hs ih => exact noleak_step hd a ih hs

theorem deferred_never_leaked (cfg : Cfg) (hd : cfg.decDeferred = true) {s : State} (hr : Reachable cfg s)
    (c : Nat) (k : Conn) (hk : s.conns[c]? = some k) (q : Req) (hq : q ∈ k.reqs) (hst : q.st = .leaked) :
    False :=
  noleak_reachable hd hr c k hk q hq hst


/-! ### without the deferred decrement: a leaked request stays for ever -/

/-- a transition of one connection record that leaves a leaked request `i`, the open/closed status
and an existing registration alone -/
def KeepsL (i : Nat) (f : Conn → Option Conn) : Prop :=
  ∀ k k', f k = some k' → k'.srvClosed = k.srvClosed ∧ (k.registered = true → k'.registered = true) ∧
    ∀ q, k.reqs[i]? = some q → q.st = .leaked → k'.reqs[i]? = some q

theorem keepsL_cSend (i : Nat) (nr : Bool) (r : Rid) : KeepsL i (cSend nr r) := by
  intro k k' h; unfold cSend at h; split at h <;> try contradiction
  simp only [Option.some.injEq] at h; subst h; exact ⟨rfl, id, fun _ hq _ => hq⟩

theorem keepsL_cAccept (i : Nat) : KeepsL i cAccept := by
  intro k k' h; unfold cAccept at h; split at h <;> try contradiction
  simp only [Option.some.injEq] at h; subst h; exact ⟨rfl, id, fun _ hq _ => hq⟩

theorem keepsL_cRegister (i : Nat) : KeepsL i cRegister := by
  intro k k' h; unfold cRegister at h; split at h <;> try contradiction
  simp only [Option.some.injEq] at h; subst h; exact ⟨rfl, fun _ => rfl, fun _ hq _ => hq⟩

theorem keepsL_cStamp (i : Nat) : KeepsL i cStamp := by
  intro k k' h; unfold cStamp at h; split at h <;> try contradiction
  simp only [Option.some.injEq] at h; subst h; exact ⟨rfl, id, fun _ hq _ => hq⟩

theorem keepsL_cRead (i n : Nat) : KeepsL i (cRead n) := by
  intro k k' h; unfold cRead at h; split at h <;> try contradiction
  split at h <;> try contradiction
  simp only [Option.some.injEq] at h; subst h; exact ⟨rfl, id, fun _ hq _ => hq⟩

theorem keepsL_cReadErr (i : Nat) (p b f : Bool) : KeepsL i (cReadErr p b f) := by
  intro k k' h; unfold cReadErr at h; split at h <;> try contradiction
  split at h <;> (simp only [Option.some.injEq] at h; subst h; exact ⟨rfl, id, fun _ hq _ => hq⟩)

theorem keepsL_cDrainTick (i : Nat) : KeepsL i cDrainTick := by
  intro k k' h; unfold cDrainTick at h; split at h <;> try contradiction
  simp only [Option.some.injEq] at h; subst h; exact ⟨rfl, id, fun _ hq _ => hq⟩

theorem keepsL_cAge (i : Nat) : KeepsL i cAge := by
  intro k k' h; unfold cAge at h
  simp only [Option.some.injEq] at h; subst h; exact ⟨rfl, id, fun _ hq _ => hq⟩

theorem keepsL_cDispatch (i : Nat) (p : Bool) : KeepsL i (cDispatch p) := by
  intro k k' h; unfold cDispatch at h; split at h <;> try contradiction
  simp only [Option.some.injEq] at h; subst h
  refine ⟨rfl, id, ?_⟩
  intro q hq _
  have hlt : i < k.reqs.length := (List.getElem?_eq_some_iff.mp hq).1
  simp only
  rw [List.getElem?_append_left hlt]; exact hq

theorem keepsL_cEnqueued' (i : Nat) : KeepsL i cEnqueued' := by
  intro k k' h; unfold cEnqueued' cEnqueued at h; split at h <;> simp at h
  subst h; exact ⟨rfl, id, fun _ hq _ => hq⟩

theorem keepsL_cSetSt (i j : Nat) (frm : HSt) (to : Conn → HSt) (hne : frm ≠ .leaked) :
    KeepsL i (fun k => cSetSt j frm (to k) k) := by
  intro k k' h
  simp only [cSetSt] at h
  split at h <;> try contradiction
  rename_i q' hq'
  split at h <;> try contradiction
  rename_i hst
  simp only [Option.some.injEq] at h; subst h
  refine ⟨rfl, id, ?_⟩
  intro q hq hqs
  by_cases hij : j = i
  · subst hij
    rw [hq'] at hq; cases hq
    rw [hst] at hqs; exact absurd hqs hne
  · simp only
    rw [List.getElem?_set_ne hij]; exact hq

theorem keepsL_cStart (i j : Nat) : KeepsL i (cStart j) :=
  keepsL_cSetSt i j .queued (fun _ => .running) (by simp)
theorem keepsL_cHand (i j : Nat) : KeepsL i (cHand j) :=
  keepsL_cSetSt i j .queued (fun _ => .handed) (by simp)
theorem keepsL_cStartP (i j : Nat) : KeepsL i (cStartP j) :=
  keepsL_cSetSt i j .handed (fun _ => .running) (by simp)
theorem keepsL_cFin (i j : Nat) : KeepsL i (cFin j) :=
  keepsL_cSetSt i j .running (fun _ => .finished) (by simp)
theorem keepsL_of_imp {i : Nat} {f g : Conn → Option Conn} (h : ∀ k k', f k = some k' → g k = some k')
    (hg : KeepsL i g) : KeepsL i f := fun k k' hf => hg k k' (h k k' hf)
theorem keepsL_cWrite (i j : Nat) : KeepsL i (cWrite j) :=
  keepsL_of_imp (cWrite_imp j) (keepsL_cSetSt i j .finished (fun k => .wrote (!k.srvClosed)) (by simp))
theorem keepsL_cSkip (i : Nat) (d : Bool) (j : Nat) : KeepsL i (cSkip d j) :=
  keepsL_of_imp (cSkip_imp d j) (keepsL_cSetSt i j .finished (fun _ => if d then .wrote true else .leaked) (by simp))

theorem keepsL_cDec (i j : Nat) : KeepsL i (cDec j) := by
  intro k k' h
  unfold cDec at h
  split at h <;> try contradiction
  rename_i q' hq'
  split at h <;> try contradiction
  rename_i ok hst
  simp only [Option.some.injEq] at h; subst h
  refine ⟨rfl, id, ?_⟩
  intro q hq hqs
  by_cases hij : j = i
  · subst hij
    rw [hq'] at hq; cases hq
    rw [hst] at hqs; contradiction
  · simp only
    rw [List.getElem?_set_ne hij]; exact hq

theorem keepsL_cFinEarly (i j : Nat) : KeepsL i (cFinEarly j) := by
  intro k k' h
  unfold cFinEarly at h
  split at h <;> try contradiction
  rename_i q' hq'
  split at h <;> try contradiction
  rename_i hst
  simp only [Option.some.injEq] at h; subst h
  refine ⟨rfl, id, ?_⟩
  intro q hq hqs
  by_cases hij : j = i
  · subst hij
    rw [hq'] at hq; cases hq
    rw [hst] at hqs; contradiction
  · simp only
    rw [List.getElem?_set_ne hij]; exact hq

theorem keepsL_cLateWrite (i j : Nat) : KeepsL i (cLateWrite j) := by
  intro k k' h
  unfold cLateWrite at h
  split at h <;> try contradiction
  rename_i q' hq'
  split at h <;> try contradiction
  rename_i hst
  simp only [Option.some.injEq] at h; subst h
  refine ⟨rfl, id, ?_⟩
  intro q hq hqs
  by_cases hij : j = i
  · subst hij
    rw [hq'] at hq; cases hq
    rw [hst] at hqs; contradiction
  · simp only
    rw [List.getElem?_set_ne hij]; exact hq

theorem keepsL_cRecvRsp (i j : Nat) : KeepsL i (cRecvRsp j) := by
  intro k k' h; unfold cRecvRsp at h; split at h <;> try contradiction
  split at h <;> try contradiction
  simp only [Option.some.injEq] at h; subst h; exact ⟨rfl, id, fun _ hq _ => hq⟩

theorem keepsL_cRecvMsg (i : Nat) : KeepsL i cRecvMsg := by
  intro k k' h; unfold cRecvMsg at h; split at h <;> try contradiction
  simp only [Option.some.injEq] at h; subst h; exact ⟨rfl, id, fun _ hq _ => hq⟩

theorem keepsL_cRecvEof (i : Nat) : KeepsL i cRecvEof := by
  intro k k' h; unfold cRecvEof at h; split at h <;> try contradiction
  simp only [Option.some.injEq] at h; subst h; exact ⟨rfl, id, fun _ hq _ => hq⟩

theorem numInvoke_pos_of_leaked {k : Conn} {i : Nat} {q : Req} (hi : ConnInv k)
    (hq : k.reqs[i]? = some q) (hs : q.st = .leaked) : 0 < k.numInvoke := by
  rw [hi.count]
  exact List.countP_pos_iff.mpr ⟨q, mem_of_getElem? hq, by simp [notDone, hs, HSt.isDone]⟩

/-- request `i` of connection `c` has ended past its `numInvoke--`; the connection is open and in the
connection table -/
structure Leaked (s : State) (c i : Nat) : Prop where
  there : ∃ k q, s.conns[c]? = some k ∧ k.reqs[i]? = some q ∧ q.st = .leaked ∧
    k.srvClosed = false ∧ k.registered = true
  pass : ∀ p, s.pass = some p → p.holding ≠ some c ∧ (p.all = true → c ∈ p.todo)
  notRet : s.spc ≠ .returned true

theorem leaked_there_set {s : State} {c i c' : Nat} {k0 k' : Conn} (hd : Leaked s c i)
    (hk : s.conns[c']? = some k0)
    (hkeep : c' = c → k'.srvClosed = k0.srvClosed ∧ (k0.registered = true → k'.registered = true) ∧
      ∀ q, k0.reqs[i]? = some q → q.st = .leaked → k'.reqs[i]? = some q) :
    ∃ k q, (s.conns.set c' k')[c]? = some k ∧ k.reqs[i]? = some q ∧ q.st = .leaked ∧
      k.srvClosed = false ∧ k.registered = true := by
  obtain ⟨k, q, hck, hq, hqs, hcl, hreg⟩ := hd.there
  by_cases hcc : c' = c
  · subst hcc
    rw [hk] at hck; cases hck
    obtain ⟨h1, h2, h3⟩ := hkeep rfl
    exact ⟨k', q, getElem?_set_self' hk, h3 q hq hqs, hqs, by rw [h1]; exact hcl, h2 hreg⟩
  · exact ⟨k, q, by rw [List.getElem?_set_ne hcc]; exact hck, hq, hqs, hcl, hreg⟩

theorem leaked_updConn {s s' : State} {c i c' : Nat} {f : Conn → Option Conn} (hk : KeepsL i f)
    (hd : Leaked s c i) (h : updConn s c' f = some s') : Leaked s' c i := by
  obtain ⟨k0, k', hk0, hf, rfl⟩ := updConn_some h
  exact ⟨leaked_there_set hd hk0 (fun _ => hk k0 k' hf), hd.pass, hd.notRet⟩

theorem leaked_notifyAll {s : State} {c i : Nat} (hd : Leaked s c i) : Leaked (notifyAll s) c i := by
  obtain ⟨k, q, hck, hq, hqs, hcl, hreg⟩ := hd.there
  obtain ⟨h1, h2, h3⟩ := cNotify_keeps k
  exact ⟨⟨cNotify k, q, notifyAll_get hck, by rw [h1]; exact hq, hqs, by rw [h2]; exact hcl, by rw [h3]; exact hreg⟩, hd.pass, hd.notRet⟩

theorem leaked_ciBegin {s : State} {c i : Nat} {b : Bool} (hd : Leaked s c i) :
    Leaked { s with pass := some { todo := registeredIds s, all := true, holding := none },
                     lastPass := registeredIds s, firstPoll := true, fpNotified := b } c i := by
  obtain ⟨k, q, hck, hq, hqs, hcl, hreg⟩ := hd.there
  refine ⟨hd.there, ?_, hd.notRet⟩
  intro p hp
  simp at hp; subst hp
  exact ⟨by simp, fun _ => mem_registeredIds_of hck hreg⟩

theorem leaked_globals {s s' : State} {c i : Nat} (hd : Leaked s c i) (hc : s'.conns = s.conns)
    (hp : s'.pass = s.pass) (hr : s'.spc ≠ .returned true) : Leaked s' c i :=
  ⟨by rw [hc]; exact hd.there, by rw [hp]; exact hd.pass, hr⟩

/-- The leaked request stays, whatever happens next: its connection is never closed by the server and
`Shutdown` never returns through `CloseIdles`. -/
theorem leaked_step {cfg : Cfg} {s s' : State} {c i : Nat}
    (a : Action) (hI : GInv cfg s) (hd : Leaked s c i) (h : step cfg s a = some s') : Leaked s' c i := by
  obtain ⟨k, q, hck, hq, hqs, hcl, hreg⟩ := hd.there
  have hpos : 0 < k.numInvoke := numInvoke_pos_of_leaked (hI.conns c k hck) hq hqs
  cases a with
  | connect =>
    simp only [step, Option.some.injEq] at h; subst h
    refine ⟨⟨k, q, ?_, hq, hqs, hcl, hreg⟩, hd.pass, hd.notRet⟩
    have hlt : c < s.conns.length := (List.getElem?_eq_some_iff.mp hck).1
    simp only
    rw [List.getElem?_append_left hlt]; exact hck
  | send c' r => exact leaked_updConn (keepsL_cSend i false r) hd h
  | sendNR c' r => exact leaked_updConn (keepsL_cSend i true r) hd h
  | accept c' =>
    simp only [step] at h
    split at h
    · exact leaked_updConn (keepsL_cAccept i) hd h
    · contradiction
  | register c' => exact leaked_updConn (keepsL_cRegister i) hd h
  | stamp c' => exact leaked_updConn (keepsL_cStamp i) hd h
  | read c' m => exact leaked_updConn (keepsL_cRead i m) hd h
  | readErr c' f => exact leaked_updConn (keepsL_cReadErr i _ _ f) hd h
  | age c' => exact leaked_updConn (keepsL_cAge i) hd h
  | dispatch c' => exact leaked_updConn (keepsL_cDispatch i _) hd h
  | enqueue c' =>
    simp only [step] at h
    split at h <;> try contradiction
    rename_i n' q' k0 hp hk0
    split at h <;> try contradiction
    rename_i k' j hce
    have hce' : cEnqueued' k0 = some k' := by simp [cEnqueued', hce]
    split at h
    · simp only [Option.some.injEq] at h; subst h
      exact ⟨leaked_there_set hd hk0 (fun _ => keepsL_cEnqueued' i k0 k' hce'), hd.pass, hd.notRet⟩
    · split at h <;> try contradiction
      simp only [Option.some.injEq] at h; subst h
      exact ⟨leaked_there_set hd hk0 (fun _ => keepsL_cEnqueued' i k0 k' hce'), hd.pass, hd.notRet⟩
  | pTake =>
    simp only [step] at h
    split at h <;> try contradiction
    split at h <;> try contradiction
    simp only [Option.some.injEq] at h; subst h
    exact leaked_globals hd rfl rfl hd.notRet
  | pGive =>
    simp only [step] at h
    split at h <;> try contradiction
    rename_i n' q' c' j hp hh
    split at h <;> try contradiction
    cases hu : updConn s c' (cHand j) with
    | none => rw [hu] at h; contradiction
    | some s1 =>
      rw [hu] at h
      simp only [Option.map_some, Option.some.injEq] at h; subst h
      have h1 := leaked_updConn (keepsL_cHand i j) hd hu
      exact leaked_globals h1 rfl rfl h1.notRet
  | start c' j =>
    simp only [step] at h
    split at h
    · exact leaked_updConn (keepsL_cStartP i j) hd h
    · exact leaked_updConn (keepsL_cStart i j) hd h
  | fin c' j =>
    simp only [step] at h
    split at h
    · contradiction
    · exact leaked_updConn (keepsL_cFin i j) hd h
  | finEarly c' j =>
    simp only [step] at h
    split at h
    · exact leaked_updConn (keepsL_cFinEarly i j) hd h
    · contradiction
  | lateWrite c' j => exact leaked_updConn (keepsL_cLateWrite i j) hd h
  | write c' j => exact leaked_updConn (keepsL_cWrite i j) hd h
  | skip c' j => exact leaked_updConn (keepsL_cSkip i _ j) hd h
  | dec c' j => exact leaked_updConn (keepsL_cDec i j) hd h
  | drainTick c' =>
    simp only [step] at h
    split at h <;> try contradiction
    split at h <;> try contradiction
    exact leaked_updConn (keepsL_cDrainTick i) hd h
  | drainClose c' =>
    by_cases hcc : c' = c
    · subst hcc
      obtain ⟨k0, k', hk0, hf, _⟩ := updConn_some h
      rw [hck] at hk0; cases hk0
      unfold cDrainClose at hf
      split at hf <;> try contradiction
      split at hf <;> try contradiction
      rename_i hz
      omega
    · obtain ⟨k0, k', hk0, hf, rfl⟩ := updConn_some h
      exact ⟨leaked_there_set hd hk0 (fun e => absurd e hcc), hd.pass, hd.notRet⟩
  | shutdownCall =>
    simp only [step] at h
    split at h <;> try contradiction
    simp only [Option.some.injEq] at h; subst h
    exact leaked_globals hd rfl rfl (by simp)
  | setClosed =>
    simp only [step] at h
    split at h <;> try contradiction
    simp only [Option.some.injEq] at h; subst h
    exact leaked_globals hd rfl rfl (by simp)
  | acceptExit =>
    simp only [step] at h
    split at h <;> try contradiction
    simp only [Option.some.injEq] at h; subst h
    exact leaked_globals hd rfl rfl hd.notRet
  | relCall =>
    simp only [step] at h
    split at h <;> try contradiction
    simp only [Option.some.injEq] at h; subst h
    exact leaked_globals hd rfl rfl hd.notRet
  | pStop =>
    simp only [step] at h
    split at h <;> try contradiction
    simp only [Option.some.injEq] at h; subst h
    exact leaked_globals hd rfl rfl hd.notRet
  | relRet =>
    simp only [step] at h
    split at h <;> try contradiction
    simp only [Option.some.injEq] at h; subst h
    exact leaked_globals hd rfl rfl hd.notRet
  | closeMsg =>
    simp only [step] at h
    split at h <;> try contradiction
    split at h <;> try contradiction
    simp only [Option.some.injEq] at h; subst h
    exact leaked_notifyAll hd
  | onShutdownRet =>
    simp only [step] at h
    split at h <;> try contradiction
    simp only [Option.some.injEq] at h; subst h
    exact leaked_globals hd rfl rfl (by simp)
  | ciBegin =>
    simp only [step] at h
    split at h <;> try contradiction
    simp only [Option.some.injEq] at h; subst h
    by_cases hl : s.listenClosed = 1
    · simp only [hl, if_true]
      exact leaked_ciBegin (leaked_notifyAll hd)
    · simp only [hl, if_false]
      exact leaked_ciBegin hd
  | ciVisit c' =>
    simp only [step] at h
    split at h <;> try contradiction
    rename_i p hp
    split at h <;> try contradiction
    rename_i hg
    split at h <;> try contradiction
    rename_i k0 hk0
    obtain ⟨hnh, hall⟩ := hd.pass p hp
    have herase : c' ≠ c → p.all = true → c ∈ p.todo.erase c' :=
      fun hne ha => (List.mem_erase_of_ne (fun e => hne e.symm)).mpr (hall ha)
    split at h
    · rename_i hr
      simp only [Option.some.injEq] at h; subst h
      have hne : c' ≠ c := by
        intro e; subst e
        rw [hck] at hk0; cases hk0
        rw [hreg] at hr; contradiction
      refine ⟨hd.there, ?_, hd.notRet⟩
      intro p' h'; simp at h'; subst h'
      exact ⟨hnh, herase hne⟩
    · split at h
      · simp only [Option.some.injEq] at h; subst h
        refine ⟨hd.there, ?_, hd.notRet⟩
        intro p' h'; simp at h'; subst h'
        exact ⟨hnh, fun ha => by simp at ha⟩
      · rename_i hidle
        have hne : c' ≠ c := by
          intro e; subst e
          rw [hck] at hk0; cases hk0
          exact hidle (Or.inl hpos)
        split at h
        · simp only [Option.some.injEq] at h; subst h
          refine ⟨hd.there, ?_, hd.notRet⟩
          intro p' h'; simp at h'; subst h'
          exact ⟨by simp [hne], herase hne⟩
        · simp only [Option.some.injEq] at h; subst h
          refine ⟨leaked_there_set hd hk0 (fun e => absurd e hne), ?_, hd.notRet⟩
          intro p' h'; simp at h'; subst h'
          exact ⟨hnh, herase hne⟩
        · simp only [Option.some.injEq] at h; subst h
          refine ⟨hd.there, ?_, hd.notRet⟩
          intro p' h'; simp at h'; subst h'
          exact ⟨hnh, fun ha => by simp at ha⟩
  | ciClose =>
    simp only [step] at h
    split at h <;> try contradiction
    rename_i p hp
    split at h <;> try contradiction
    rename_i c' hh
    split at h <;> try contradiction
    rename_i k0 hk0
    simp only [Option.some.injEq] at h; subst h
    obtain ⟨hnh, hall⟩ := hd.pass p hp
    have hne : c' ≠ c := by
      intro e; subst e; exact hnh hh
    refine ⟨leaked_there_set hd hk0 (fun e => absurd e hne), ?_, hd.notRet⟩
    intro p' h'; simp at h'; subst h'
    exact ⟨by simp, hall⟩
  | ciEnd =>
    simp only [step] at h
    split at h <;> try contradiction
    rename_i p hs hp
    split at h <;> try contradiction
    rename_i hg
    simp only [Option.some.injEq] at h; subst h
    obtain ⟨_, hall⟩ := hd.pass p hp
    have hpa : p.all = false := by
      cases hpa : p.all with
      | false => rfl
      | true => have := hall hpa; rw [hg.1] at this; simp at this
    refine ⟨hd.there, ?_, ?_⟩
    · intro p' h'; simp at h'
    · simp [hpa]
  | ctxExpire =>
    simp only [step] at h
    split at h <;> try contradiction
    simp only [Option.some.injEq] at h; subst h
    exact leaked_globals hd rfl rfl (by simp)
  | recvRsp c' j => exact leaked_updConn (keepsL_cRecvRsp i j) hd h
  | recvMsg c' => exact leaked_updConn (keepsL_cRecvMsg i) hd h
  | recvEof c' => exact leaked_updConn (keepsL_cRecvEof i) hd h

/-- a leaked request stays along every continuation -/
theorem leaked_run {cfg : Cfg} {c i : Nat} {acts : List Action} : ∀ {s s' : State},
    Reachable cfg s → Leaked s c i → runFrom cfg s acts = some s' → Leaked s' c i := by
  induction acts with
  | nil => intro s s' _ hd h; simp [runFrom] at h; subst h; exact hd
  | cons a as ih =>
    intro s s' hr hd h
    simp only [runFrom] at h
    split at h <;> try contradiction
    rename_i s1 hs1
    exact ih (Reachable.step a hr hs1) (leaked_step a (ginv_reachable hr) hd hs1) h

end Tars.ServerConn
