import TarsModel.Proofs.RefParse3

/-!
# Reference decoder, stage 2: the strict schema-directed interpretation of the tree of a value is
  its normal form
-/
namespace Tars
open Consts
namespace Ref

/-! ## unfolding -/

theorem interp_succ (env : Env) (fuel : Nat) (ty : Ty) (f : Tlv) :
    interp env (fuel+1) ty f =
      match ty with
      | .bool => interpBool f
      | .f32 => if f.ty ≠ 4 then none else some (.f32 f.bits)
      | .f64 => if f.ty ≠ 5 then none else some (.f64 f.bits)
      | .str =>
        if f.ty ≠ 6 ∧ f.ty ≠ 7 then none
        else if decide (f.ty = 7) ≠ decide (f.str.length > 255) then none
        else some (.str f.str)
      | .vec e =>
        if f.ty = 13 then
          if e = .i8 then some (.list (f.str.map fun c => Val.int (sext 8 c.val)))
          else if e = .u8 then some (.list (f.str.map fun c => Val.int (c.val : Nat)))
          else none
        else if f.ty = 9 then
          if e = .i8 then none
          else
            match interpElems env fuel e f.kids with
            | none => none
            | some vs => some (.list vs)
        else none
      | .arr n e =>
        if f.ty = 9 then
          match interpElems env fuel e f.kids with
          | none => none
          | some vs => if vs.length ≠ n then none else some (.list vs)
        else none
      | .map k v =>
        if f.ty ≠ 8 then none
        else
          match interpPairs env fuel k v f.kids [] with
          | none => none
          | some kvs => some (.map kvs)
      | .struct name =>
        if f.ty ≠ 10 then none
        else
          match env.find name with
          | none => none
          | some fs =>
            if !ascending (-1) f.kids then none
            else
              match interpFields env fuel fs f.kids with
              | none => none
              | some vs => some (.struct vs)
      | t => interpInt t f := by
  conv => lhs; unfold interp
  rfl

theorem interpElems_nil (env : Env) (fuel : Nat) (e : Ty) :
    interpElems env (fuel+1) e [] = some [] := by
  conv => lhs; unfold interpElems

theorem interpElems_cons (env : Env) (fuel : Nat) (e : Ty) (k : Tlv) (ks : List Tlv) :
    interpElems env (fuel+1) e (k :: ks) =
      match interp env fuel e k with
      | none => none
      | some v =>
        match interpElems env fuel e ks with
        | none => none
        | some vs => some (v :: vs) := by
  conv => lhs; unfold interpElems
  rfl

theorem interpPairs_nil (env : Env) (fuel : Nat) (k v : Ty) (acc : List (Val × Val)) :
    interpPairs env (fuel+1) k v [] acc = some acc := by
  conv => lhs; unfold interpPairs

theorem interpPairs_cons (env : Env) (fuel : Nat) (k v : Ty) (kf vf : Tlv) (ks : List Tlv)
    (acc : List (Val × Val)) :
    interpPairs env (fuel+1) k v (kf :: vf :: ks) acc =
      match interp env fuel k kf with
      | none => none
      | some a =>
        match interp env fuel v vf with
        | none => none
        | some b =>
          if acc.any (fun p => goEq p.1 a) then none
          else interpPairs env fuel k v ks (acc ++ [(a, b)]) := by
  conv => lhs; unfold interpPairs
  rfl

theorem interpFields_nil (env : Env) (fuel : Nat) :
    interpFields env (fuel+1) [] [] = some [] := by
  conv => lhs; unfold interpFields

/-- a declared member whose field is next -/
theorem interpFields_here (env : Env) (fuel : Nat) (f : Field) (fs : List Field) (m : Tlv)
    (ms : List Tlv) (h : m.tag = f.tag) :
    interpFields env (fuel+1) (f :: fs) (m :: ms) =
      match interp env fuel f.ty m with
      | none => none
      | some v =>
        match interpFields env fuel fs ms with
        | none => none
        | some vs => some (v :: vs) := by
  conv => lhs; unfold interpFields
  simp only [h, if_true]
  cases interp env fuel f.ty m <;> rfl

/-- a declared optional member that is absent: the next field (if any) carries another tag -/
theorem interpFields_absent (env : Env) (fuel : Nat) (f : Field) (fs : List Field) (ms : List Tlv)
    (hreq : f.req = false) (h : ∀ m ∈ ms.head?, m.tag ≠ f.tag) :
    interpFields env (fuel+1) (f :: fs) ms =
      match interpFields env fuel fs ms with
      | none => none
      | some vs => some ((match f.dflt with
          | some d => d
          | none => zeroRef env (env.length + 1) f.ty) :: vs) := by
  conv => lhs; unfold interpFields
  cases ms with
  | nil => simp only [hreq]; rfl
  | cons m ms' =>
    have : ¬ m.tag = f.tag := h m (by simp)
    simp only [hreq, this, if_false]; rfl

/-! ## scalars -/

theorem minWidth_cases (i : Int) :
    (i = 0 ∧ Tars.minWidth i = 0) ∨
    (i ≠ 0 ∧ (-(2:Int)^7 ≤ i ∧ i < (2:Int)^7) ∧ Tars.minWidth i = 1) ∨
    (¬ (-(2:Int)^7 ≤ i ∧ i < (2:Int)^7) ∧ (-(2:Int)^15 ≤ i ∧ i < (2:Int)^15) ∧ Tars.minWidth i = 2) ∨
    (¬ (-(2:Int)^15 ≤ i ∧ i < (2:Int)^15) ∧ (-(2:Int)^31 ≤ i ∧ i < (2:Int)^31) ∧ Tars.minWidth i = 4) ∨
    (¬ (-(2:Int)^31 ≤ i ∧ i < (2:Int)^31) ∧ Tars.minWidth i = 8) := by
  unfold Tars.minWidth
  by_cases h0 : i = 0
  · left; exact ⟨h0, by rw [if_pos h0]⟩
  · rw [if_neg h0]
    by_cases h8 : -(2 : Int) ^ 7 ≤ i ∧ i < (2 : Int) ^ 7
    · right; left; exact ⟨h0, h8, by rw [if_pos h8]⟩
    · rw [if_neg h8]
      by_cases h16 : -(2 : Int) ^ 15 ≤ i ∧ i < (2 : Int) ^ 15
      · right; right; left; exact ⟨h8, h16, by rw [if_pos h16]⟩
      · rw [if_neg h16]
        by_cases h32 : -(2 : Int) ^ 31 ≤ i ∧ i < (2 : Int) ^ 31
        · right; right; right; left; exact ⟨h16, h32, by rw [if_pos h32]⟩
        · right; right; right; right; exact ⟨h32, by rw [if_neg h32]⟩

set_option linter.unusedSimpArgs false in
/-- an integer of a declared integer type passes the strict checks -/
theorem interpInt_ok (ty : Ty) (i : Int) (tag : Nat) (hty : ty ≠ .bool)
    (h : ScalarOK ty (.int i)) : interpInt ty (intTlv tag i) = some (.int i) := by
  unfold interpInt intTlv
  simp only [Tlv.ty, Tlv.width, Tlv.ival, minWidth_eq]
  cases ty <;> simp only [ScalarOK] at h <;> try (exact absurd rfl hty)
  all_goals
    simp only [intRange]
    rcases minWidth_cases i with ⟨h0, hw⟩ | ⟨h0, hr, hw⟩ | ⟨hn, hr, hw⟩ | ⟨hn, hr, hw⟩ | ⟨hn, hw⟩ <;>
      rw [hw] <;> simp +decide only [intTy] <;>
      first
        | omega
        | (simp; done)
        | (simp; omega)

end Ref
end Tars
