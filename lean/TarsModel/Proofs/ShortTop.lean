import TarsModel.Proofs.ShortKinds

/-!
  C06, struct level, every prefix: `ReadFrom` into a fresh struct on ANY prefix of the encoding of a
  well-typed value (`decStruct_prefix`), from the member-level cut statement `tr_all` and the
  member loop `decMembers_prefix`.
-/
namespace Tars
open Consts

/-- **`ReadFrom` on any prefix of an encoding** (fresh target): an error, or exactly the members
    whose fields are complete (`k` of them; the cut is at that boundary, or one byte later inside a
    two-byte head), all other members optional and at what `ResetDefault` gives them -/
theorem decStruct_prefix (env : Env) (rk : String → Nat) (S : String) (fs : List Field) (vs : List Val)
    (p : Bytes) (hW : WellTyped env rk S (.struct vs)) (hfs : env.find S = some fs)
    (hp : p <+: encMembers env fs vs) :
    (∃ e r', decStruct env S (freshStruct env S) (Reader.mk0 p) = (.error e, r')) ∨
    (∃ k r' os, freshStruct env S = .struct os ∧ k ≤ fs.length ∧
      CutAt p (encMembers env (fs.take k) (vs.take k)) ∧ (∀ f ∈ fs.drop k, f.req = false) ∧
      decStruct env S (freshStruct env S) (Reader.mk0 p) =
        (.ok (.struct (normMembers env (fs.take k) (vs.take k) ++
          absentVals env (decFuel env (Reader.mk0 p) - k) (fs.drop k)
            ((resetDefault env (decFuel env (Reader.mk0 p)) fs os).drop k))), r')) := by
  obtain ⟨hE, hwt⟩ := hW
  have hwm : WTm env fs vs := by simpa [WT, hfs] using hwt
  obtain ⟨hrk, hasc, hfok⟩ := hE S fs hfs
  obtain ⟨os, hos, hrm⟩ := ready_struct hfs (freshStruct_targetOK hE hfs)
  have htys : ∀ g ∈ fs, TyOK env rk (env.length + 1) g.ty :=
    fun g hg => TyOK.mono (by omega) (hfok g hg).2.1
  have hr : (Reader.mk0 p).rest = p := by simp [Reader.mk0, Reader.rest]
  obtain ⟨F, hF⟩ : ∃ F, decFuel env (Reader.mk0 p) = F + 1 :=
    ⟨decFuel env (Reader.mk0 p) - 1, by have := decFuel_pos env (Reader.mk0 p); omega⟩
  have hfuel : (env.width + 3) * p.length + fs.length + 2 ≤ decFuel env (Reader.mk0 p) := by
    have hw := find_width env S fs hfs
    unfold decFuel
    simp only [Reader.mk0, List.size_toArray]
    rw [Nat.mul_add]
    omega
  have hold : OldOKs env fs (resetDefault env (decFuel env (Reader.mk0 p)) fs os) := by
    rw [hF]; exact resetDefault_oldOK hE F fs os htys hrm
  have hm := decMembers_prefix env rk hE (rk S) hrk vs (fun v _ => tr_all env rk hE v) fs _
    (decFuel env (Reader.mk0 p)) (Reader.mk0 p) p hfok hasc hwm hold hp hfuel hr
  rw [hos]
  unfold decStruct
  simp only [hfs]
  rcases hm with ⟨e, r', he⟩ | ⟨k, r', hk, hcut, hopt, _, hdec⟩
  · left; rw [he]; exact ⟨e, r', rfl⟩
  · right
    refine ⟨k, r', os, rfl, hk, hcut, hopt, ?_⟩
    rw [hdec]

end Tars
