/-
  The parse loop commutes with appending (key lemma of C07, strong induction on the buffer
  length), conservation of bytes, well-formedness of what is delivered, and the behaviour on
  framed streams.  Everything is proved for `drainServer` and transported to both sides through
  `drain_eq`.
-/
import TarsModel.Proofs.Frame

namespace Tars.Frame
open Tars

theorem drainServer_nil (m : Int) : drainServer m [] = ([], [], .open) :=
  drainServer_less (tarsRequest_short m [] (by decide))

/-- the loop never panics: `tarsRequest` answers `PackageFull` only with `pkgLen ≤ len` -/
theorem drainServer_ne_panicked (m : Int) (b : Bytes) : (drainServer m b).2.2 ≠ .panicked := by
  induction hk : b.length using Nat.strongRecOn generalizing b with
  | _ k ih =>
    cases verdict m b with
    | less h _ => rw [drainServer_less h]; simp
    | error h _ _ => rw [drainServer_error h]; simp
    | full n h hn h4 hm hl =>
      rw [drainServer_full h hl]
      by_cases hr : 0 < (b.drop n).length
      · rw [if_pos hr]
        exact ih (b.drop n).length (by simp only [List.length_drop]; omega) _ rfl
      · rw [if_neg hr]; simp

/-- **Key lemma, open case.** If the loop on `b` stops at `conn.Read` with `r` left over, the loop
on `b ++ c` delivers the same packets first and then does what the loop does on `r ++ c`. -/
theorem drainServer_append_open (m : Int) (b : Bytes) :
    ∀ (r : Bytes) (d : List Bytes), drainServer m b = (r, d, .open) → ∀ c : Bytes,
      drainServer m (b ++ c) =
        ((drainServer m (r ++ c)).1, d ++ (drainServer m (r ++ c)).2.1,
          (drainServer m (r ++ c)).2.2) := by
  induction hk : b.length using Nat.strongRecOn generalizing b with
  | _ k ih =>
    intro r d h c
    cases verdict m b with
    | less h' _ =>
      rw [drainServer_less h'] at h
      simp only [Prod.mk.injEq, and_true] at h
      obtain ⟨rfl, rfl⟩ := h
      simp
    | error h' _ _ =>
      rw [drainServer_error h'] at h
      simp at h
    | full n h' hn h4 hm hl =>
      have hfull := tarsRequest_full_append h' c
      have hl' : n ≤ (b ++ c).length := by simp only [List.length_append]; omega
      rw [drainServer_full hfull hl']
      rw [drainServer_full h' hl] at h
      have htake : (b ++ c).take n = b.take n := List.take_append_of_le_length hl
      have hdrop : (b ++ c).drop n = b.drop n ++ c := List.drop_append_of_le_length hl
      rw [htake, hdrop]
      by_cases hr : 0 < (b.drop n).length
      · rw [if_pos hr] at h
        simp only [Prod.mk.injEq] at h
        obtain ⟨h1, h2, h3⟩ := h
        have hrest : drainServer m (b.drop n) = (r, (drainServer m (b.drop n)).2.1, .open) := by
          rw [← h1, ← h3]
        have hi := ih (b.drop n).length (by simp only [List.length_drop]; omega) _ rfl _ _ hrest c
        rw [if_pos (by simp only [List.length_append]; omega), hi, ← h2]
        simp
      · rw [if_neg hr] at h
        simp only [Prod.mk.injEq, and_true] at h
        obtain ⟨rfl, rfl⟩ := h
        have hnil : b.drop n = [] := List.eq_nil_of_length_eq_zero (by omega)
        rw [hnil]
        simp only [List.nil_append]
        by_cases hc : 0 < c.length
        · rw [if_pos hc]; simp
        · have : c = [] := List.eq_nil_of_length_eq_zero (by omega)
          subst this
          rw [if_neg hc, drainServer_nil]; simp

/-- **Key lemma, closed case.** Once an illegal length is at the front nothing appended changes
the outcome: the same packets, then the error. -/
theorem drainServer_append_closed (m : Int) (b : Bytes) :
    ∀ (r : Bytes) (d : List Bytes), drainServer m b = (r, d, .closed) → ∀ c : Bytes,
      drainServer m (b ++ c) = (r ++ c, d, .closed) := by
  induction hk : b.length using Nat.strongRecOn generalizing b with
  | _ k ih =>
    intro r d h c
    cases verdict m b with
    | less h' _ =>
      rw [drainServer_less h'] at h
      simp at h
    | error h' _ _ =>
      rw [drainServer_error h'] at h
      simp only [Prod.mk.injEq, and_true] at h
      obtain ⟨rfl, rfl⟩ := h
      rw [drainServer_error (tarsRequest_error_append h' c)]
    | full n h' hn h4 hm hl =>
      have hfull := tarsRequest_full_append h' c
      have hl' : n ≤ (b ++ c).length := by simp only [List.length_append]; omega
      rw [drainServer_full hfull hl']
      rw [drainServer_full h' hl] at h
      have htake : (b ++ c).take n = b.take n := List.take_append_of_le_length hl
      have hdrop : (b ++ c).drop n = b.drop n ++ c := List.drop_append_of_le_length hl
      rw [htake, hdrop]
      by_cases hr : 0 < (b.drop n).length
      · rw [if_pos hr] at h
        simp only [Prod.mk.injEq] at h
        obtain ⟨h1, h2, h3⟩ := h
        have hrest : drainServer m (b.drop n) = (r, (drainServer m (b.drop n)).2.1, .closed) := by
          rw [← h1, ← h3]
        have hi := ih (b.drop n).length (by simp only [List.length_drop]; omega) _ rfl _ _ hrest c
        rw [if_pos (by simp only [List.length_append]; omega), hi, ← h2]
      · rw [if_neg hr] at h
        simp at h

/-- conservation: the delivered packets followed by what is left are exactly the input bytes -/
theorem drainServer_conserve (m : Int) (b : Bytes) :
    (drainServer m b).2.1.flatten ++ (drainServer m b).1 = b := by
  induction hk : b.length using Nat.strongRecOn generalizing b with
  | _ k ih =>
    cases verdict m b with
    | less h _ => rw [drainServer_less h]; simp
    | error h _ _ => rw [drainServer_error h]; simp
    | full n h hn h4 hm hl =>
      rw [drainServer_full h hl]
      by_cases hr : 0 < (b.drop n).length
      · rw [if_pos hr]
        have hi := ih (b.drop n).length (by simp only [List.length_drop]; omega) _ rfl
        simp only [List.flatten_cons, List.append_assoc]
        rw [hi, List.take_append_drop]
      · rw [if_neg hr]
        have hnil : b.drop n = [] := List.eq_nil_of_length_eq_zero (by omega)
        have := List.take_append_drop n b
        rw [hnil] at this
        simpa using this

/-- a delivered packet is a complete, legal packet: at least the header, at most the maximum, and
exactly as long as its own length prefix says -/
def WellFormed (m : Int) (p : Bytes) : Prop :=
  4 ≤ p.length ∧ (p.length : Int) ≤ m ∧ hdrVal p = p.length

theorem drainServer_wellformed (m : Int) (b : Bytes) :
    ∀ p ∈ (drainServer m b).2.1, WellFormed m p := by
  induction hk : b.length using Nat.strongRecOn generalizing b with
  | _ k ih =>
    cases verdict m b with
    | less h _ => rw [drainServer_less h]; simp
    | error h _ _ => rw [drainServer_error h]; simp
    | full n h hn h4 hm hl =>
      have hp : WellFormed m (b.take n) := by
        have hlen : (b.take n).length = n := by simp only [List.length_take]; omega
        refine ⟨by rw [hlen]; exact h4, by rw [hlen]; exact hm, ?_⟩
        have h4' : 4 ≤ hdrVal b := hn ▸ h4
        rw [hlen, hn]
        unfold hdrVal at h4' ⊢
        rw [List.take_take, Nat.min_eq_left h4']
      rw [drainServer_full h hl]
      by_cases hr : 0 < (b.drop n).length
      · rw [if_pos hr]
        intro p hp'
        simp only [List.mem_cons] at hp'
        rcases hp' with rfl | hp'
        · exact hp
        · exact ih (b.drop n).length (by simp only [List.length_drop]; omega) _ rfl p hp'
      · rw [if_neg hr]
        intro p hp'
        simp only [List.mem_cons, List.not_mem_nil, or_false] at hp'
        subst hp'
        exact hp

/-- what is left when the loop goes back to `conn.Read` is an incomplete packet: nothing more can
be delivered from it -/
theorem drainServer_rest_less (m : Int) (b : Bytes) (h : (drainServer m b).2.2 = .open) :
    drainServer m (drainServer m b).1 = ((drainServer m b).1, [], .open) := by
  induction hk : b.length using Nat.strongRecOn generalizing b with
  | _ k ih =>
    cases verdict m b with
    | less h' _ => rw [drainServer_less h']; exact drainServer_less h'
    | error h' _ _ => rw [drainServer_error h'] at h; simp at h
    | full n h' hn h4 hm hl =>
      rw [drainServer_full h' hl] at h ⊢
      by_cases hr : 0 < (b.drop n).length
      · rw [if_pos hr] at h ⊢
        exact ih (b.drop n).length (by simp only [List.length_drop]; omega) _ h rfl
      · rw [if_neg hr]; exact drainServer_nil m

/-! ### framed streams -/

theorem frame_length (p : Bytes) : (frame p).length = p.length + 4 := by
  simp [frame, Nat.add_comm]

theorem hdrVal_frame (p t : Bytes) (h : p.length + 4 < 2 ^ 32) :
    hdrVal (frame p ++ t) = p.length + 4 := by
  unfold hdrVal frame
  rw [List.append_assoc, List.take_append_of_le_length (by simp)]
  rw [List.take_of_length_le (by simp), beVal_be]
  exact Nat.mod_eq_of_lt h

/-- a legal packet: its framed length fits the 4-byte prefix and does not exceed the maximum -/
def Legal (m : Int) (p : Bytes) : Prop := ((p.length + 4 : Nat) : Int) ≤ m ∧ p.length + 4 < 2 ^ 32

theorem tarsRequest_frame {m : Int} {p : Bytes} (hp : Legal m p) (t : Bytes) :
    tarsRequest m (frame p ++ t) = .ret (p.length + 4) Consts.protoPackageFull := by
  have hlen : 4 ≤ (frame p ++ t).length := by
    simp only [List.length_append, frame_length]; omega
  rw [tarsRequest_long m _ hlen, hdrVal_frame p t hp.2]
  have := hp.1
  rw [if_neg (by omega), if_neg (by simp only [List.length_append, frame_length]; omega)]

/-- one framed packet at the front is delivered, whole and alone, and the loop goes on -/
theorem drainServer_frame {m : Int} {p : Bytes} (hp : Legal m p) (t : Bytes) :
    drainServer m (frame p ++ t) =
      ((drainServer m t).1, frame p :: (drainServer m t).2.1, (drainServer m t).2.2) := by
  have hl : p.length + 4 ≤ (frame p ++ t).length := by
    simp only [List.length_append, frame_length]; omega
  rw [drainServer_full (tarsRequest_frame hp t) hl]
  have h1 : (frame p ++ t).take (p.length + 4) = frame p := by
    rw [List.take_append_of_le_length (by rw [frame_length]; omega),
      List.take_of_length_le (by rw [frame_length]; omega)]
  have h2 : (frame p ++ t).drop (p.length + 4) = t := by
    rw [← frame_length p]; exact List.drop_left
  rw [h1, h2]
  by_cases ht : 0 < t.length
  · rw [if_pos ht]
  · have : t = [] := List.eq_nil_of_length_eq_zero (by omega)
    subst this
    rw [if_neg ht, drainServer_nil]

theorem drainServer_frames {m : Int} (ps : List Bytes) (hp : ∀ p ∈ ps, Legal m p) (t : Bytes) :
    drainServer m ((ps.map frame).flatten ++ t) =
      ((drainServer m t).1, ps.map frame ++ (drainServer m t).2.1, (drainServer m t).2.2) := by
  induction ps with
  | nil => simp
  | cons p ps ih =>
    simp only [List.map_cons, List.flatten_cons, List.append_assoc]
    rw [drainServer_frame (hp p (by simp))]
    rw [ih (fun q hq => hp q (by simp [hq]))]
    simp

/-- an illegal length prefix at the front: error, nothing delivered -/
theorem drainServer_illegal {m : Int} (hdr : Bytes) (hlen : hdr.length = 4)
    (hbad : beVal hdr < 4 ∨ (beVal hdr : Int) > m) (t : Bytes) :
    drainServer m (hdr ++ t) = (hdr ++ t, [], .closed) := by
  have h4 : 4 ≤ (hdr ++ t).length := by simp only [List.length_append]; omega
  have hv : hdrVal (hdr ++ t) = beVal hdr := by
    unfold hdrVal
    rw [List.take_append_of_le_length (by omega), List.take_of_length_le (by omega)]
  have := tarsRequest_long m (hdr ++ t) h4
  rw [hv, if_pos hbad] at this
  exact drainServer_error this

end Tars.Frame
