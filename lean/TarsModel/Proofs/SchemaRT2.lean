import TarsModel.Proofs.SchemaRT1

/-!
# Round trip, stage 2: vectors (LIST and SimpleList) and fixed arrays
-/
namespace Tars
open Consts

/-! ## byte vectors -/

theorem int8_roundtrip (env : Env) : ∀ (vs : List Val), WTs env .i8 vs →
    bytesToVals true (int8Bytes vs) = vs ∧ normElems env .i8 vs = vs ∧
    (int8Bytes vs).length = vs.length
  | [], _ => by simp [bytesToVals, int8Bytes, normElems]
  | v :: vs, h => by
    simp only [WTs] at h
    obtain ⟨h1, h2, h3⟩ := int8_roundtrip env vs h.2
    have hv := h.1
    cases v <;> simp only [WT, ScalarOK] at hv
    rename_i i
    simp only [bytesToVals, int8Bytes, List.map_cons, normElems, normVar, List.length_cons,
      if_true] at h1 h2 h3 ⊢
    refine ⟨?_, ?_, ?_⟩
    · rw [h1]
      congr 1
      have hlt := toU_lt 8 i
      rw [byte_val, Nat.mod_eq_of_lt (by simpa using hlt)]
      rw [toS_toU 8 (by decide) i (by simp; omega) (by simp; omega)]
    · rw [h2]
    · simp [List.length_map]

theorem readSlice8_full (r : Reader) (old bs t : Bytes) (hne : bs ≠ []) (h : r.rest = bs ++ t) :
    readSlice8 old (bs.length : Int) r = (.ok bs, r.adv bs.length) := by
  unfold readSlice8
  have hpos : 0 < bs.length := List.length_pos_iff.mpr hne
  have : ¬ ((bs.length : Int) ≤ 0) := by omega
  simp only [this, if_false, Int.toNat_natCast]
  rw [checkLength_ok r bs.length (bs ++ t) h (by simp)]
  exact readFull_full r bs t h hne

/-! ## element loops -/

theorem decElems_rt (env : Env) (rk : String → Nat) (hE : EnvWF env rk) (e : Ty)
    (he : TyOK env rk (env.length + 1) e) :
    ∀ (vs : List Val), (∀ v ∈ vs, RT env rk v) → WTs env e vs →
      ∀ (fuel : Nat) (acc : List Val) (r : Reader) (t : Bytes), needElems vs ≤ fuel →
        r.rest = encElems env e vs ++ t →
        decElems env fuel e vs.length acc r
          = (.ok (.list (acc.reverse ++ normElems env e vs)), r.adv (encElems env e vs).length)
  | [], _, _, fuel, acc, r, t, hf, _ => by
    obtain ⟨f, rfl⟩ : ∃ f, fuel = f + 1 := ⟨fuel - 1, by simp [needElems] at hf; omega⟩
    simp [decElems_zero, normElems, encElems]
  | v :: vs, ih, hwt, fuel, acc, r, t, hf, h => by
    simp only [needElems] at hf
    obtain ⟨f, rfl⟩ : ∃ f, fuel = f + 1 := ⟨fuel - 1, by omega⟩
    simp only [WTs] at hwt
    simp only [encElems, List.append_assoc] at h
    simp only [List.length_cons, decElems_succ]
    have hv := ih v (by simp) f 0 true e none (zeroOf env e) r (encElems env e vs ++ t)
      (by decide) he trivial hwt.1 (zeroOf_ready hE e he) (by intro h; cases h) (by omega) h
    rw [hv]
    simp only
    have hr := r.rest_adv _ _ h
    have := decElems_rt env rk hE e he vs (fun w hw => ih w (by simp [hw])) hwt.2 f
      (normVar env true e none v :: acc) _ t (by omega) hr
    rw [this]
    simp [normElems, encElems, Reader.adv_adv]

theorem listSet_mid (pre : List Val) (o v : Val) (os : List Val) :
    listSet (pre ++ o :: os) pre.length v = pre ++ v :: os := by
  simp [listSet]

theorem decArr_rt (env : Env) (rk : String → Nat) (e : Ty)
    (he : TyOK env rk (env.length + 1) e) :
    ∀ (vs : List Val), (∀ v ∈ vs, RT env rk v) → WTs env e vs →
      ∀ (fuel n i : Nat) (pre olds : List Val) (r : Reader) (t : Bytes),
        i = pre.length → n = i + vs.length → olds.length = vs.length → ReadyAll env e olds →
        needElems vs ≤ fuel → r.rest = encElems env e vs ++ t →
        decArr env fuel e n i (n : Int) (pre ++ olds) r
          = (.ok (.list (pre ++ normElems env e vs)), r.adv (encElems env e vs).length)
  | [], _, _, fuel, n, i, pre, olds, r, t, hi, hn, hol, _, hf, _ => by
    obtain ⟨f, rfl⟩ : ∃ f, fuel = f + 1 := ⟨fuel - 1, by simp [needElems] at hf; omega⟩
    have : olds = [] := List.length_eq_zero_iff.mp (by simpa using hol)
    subst this
    simp only [List.length_nil, Nat.add_zero] at hn
    subst hn
    simp [decArr_succ, normElems, encElems]
  | v :: vs, ih, hwt, fuel, n, i, pre, olds, r, t, hi, hn, hol, hro, hf, h => by
    simp only [needElems] at hf
    obtain ⟨f, rfl⟩ : ∃ f, fuel = f + 1 := ⟨fuel - 1, by omega⟩
    obtain ⟨o, os, rfl⟩ : ∃ o os, olds = o :: os := by
      cases olds with
      | nil => simp at hol
      | cons o os => exact ⟨o, os, rfl⟩
    simp only [WTs] at hwt
    simp only [ReadyAll] at hro
    simp only [List.length_cons] at hn hol
    simp only [encElems, List.append_assoc] at h
    rw [decArr_succ]
    have c1 : ¬ ((i : Int) ≥ (n : Int)) := by omega
    have c2 : ¬ (i ≥ n) := by omega
    simp only [c1, c2, if_false]
    have hget : (pre ++ o :: os).getD i (zeroOf env e) = o := by
      subst hi; simp [List.getD]
    rw [hget]
    have hv := ih v (by simp) f 0 true e none o r (encElems env e vs ++ t)
      (by decide) he trivial hwt.1 hro.1 (by intro h; cases h) (by omega) h
    rw [hv]
    simp only
    have hr := r.rest_adv _ _ h
    have hset : listSet (pre ++ o :: os) i (normVar env true e none v)
        = (pre ++ [normVar env true e none v]) ++ os := by
      subst hi; rw [listSet_mid]; simp
    rw [hset]
    have := decArr_rt env rk e he vs (fun w hw => ih w (by simp [hw])) hwt.2 f n (i+1)
      (pre ++ [normVar env true e none v]) os _ t (by simp [hi]) (by omega) (by omega) hro.2
      (by omega) hr
    rw [this]
    simp [normElems, encElems, Reader.adv_adv]

end Tars

namespace Tars
open Consts

theorem ready_vec {env : Env} {e : Ty} {o : Val} (h : Ready env (.vec e) o) : o = .list [] := by
  cases o <;> simp [Ready, Ty.isAtom, Ty.isScalar] at h
  rw [h]

theorem ready_arr {env : Env} {n : Nat} {e : Ty} {o : Val} (h : Ready env (.arr n e) o) :
    ∃ os, o = .list os ∧ os.length = n ∧ ReadyAll env e os := by
  cases o <;> simp [Ready, Ty.isAtom, Ty.isScalar] at h
  exact ⟨_, rfl, h.1, h.2⟩

theorem dflt_none_of_nonatom {ty : Ty} {dflt : Option Val} (hd : DfltOK ty dflt)
    (h : ty.isAtom = false) : dflt = none := by
  cases dflt with
  | none => rfl
  | some d => simp [DfltOK, h] at hd

/-- `vector<T>` members and elements (LIST, and SimpleList for `vector<byte>`) -/
theorem rt_vec (env : Env) (rk : String → Nat) (hE : EnvWF env rk) (vs : List Val)
    (ih : ∀ v ∈ vs, RT env rk v) (e : Ty)
    (fuel tag : Nat) (req : Bool) (old : Val) (r : Reader) (t : Bytes)
    (htag : tag < 256) (he : TyOK env rk (env.length + 1) e)
    (hlen : vs.length < 2^31) (hwt : WTs env e vs) (ho : Ready env (.vec e) old)
    (hnt : req = false → NextTagGt tag t) (hfuel : needElems vs ≤ fuel)
    (h : r.rest = encVar env tag req (.vec e) none (.list vs) ++ t) :
    decVar env (fuel+1) tag req (.vec e) old r
      = (.ok (normVar env req (.vec e) none (.list vs)),
          r.adv (encVar env tag req (.vec e) none (.list vs)).length) := by
  have hold := ready_vec ho
  subst hold
  rw [decVar_vec]
  rw [encVar] at h ⊢
  simp only [normVar]
  by_cases c1 : (!req && vs.isEmpty) = true
  · -- absent optional vector
    have hreq : req = false := by cases req <;> simp_all
    have hvs : vs = [] := by cases vs <;> simp_all
    subst hreq; subst hvs
    rw [if_pos c1] at h ⊢
    simp only [List.nil_append, List.length_nil, Reader.adv_zero] at h ⊢
    obtain ⟨ty', hm⟩ := skipToNoCheck_miss r tag (h ▸ hnt rfl)
    rw [hm]
    simp [normElems]
  · rw [if_neg c1] at h ⊢
    by_cases c2 : e = .i8
    · -- SimpleList
      subst c2
      simp only [if_true, List.append_assoc] at h ⊢
      rw [skipToNoCheck_hit r tySimpleList tag req _ (by decide) (by decide) htag h]
      have hr1 := r.rest_adv _ _ h
      have c3 : (!req && !true) = false := by simp
      simp only [c3]
      simp +decide only [if_false, if_true]
      rw [skipTo_hit _ tyBYTE 0 true _ (by decide) (by decide) (by decide) hr1]
      have hr2 := Reader.rest_adv _ _ _ hr1
      simp only
      rw [readLen_len _ vs.length _ hlen hr2]
      have hr3 := Reader.rest_adv _ _ _ hr2
      simp only
      obtain ⟨hb1, hb2, hb3⟩ := int8_roundtrip env vs hwt
      by_cases hvs : vs = []
      · subst hvs
        simp [readSlice8, normElems, int8Bytes, bytesToVals, Reader.adv_adv, Nat.add_assoc]
      · have hne : int8Bytes vs ≠ [] := by
          intro h0; apply hvs; apply List.length_eq_zero_iff.mp; rw [← hb3, h0]; rfl
        have hsl := readSlice8_full _ (int8Bytes []) _ t hne hr3
        rw [hb3] at hsl
        rw [hsl]
        simp only [decide_true, hb1, hb2]
        simp [Reader.adv_adv, Nat.add_assoc, hb3]
    · -- LIST
      simp only [c2, if_false, List.append_assoc] at h ⊢
      rw [skipToNoCheck_hit r tyLIST tag req _ (by decide) (by decide) htag h]
      have hr1 := r.rest_adv _ _ h
      have c3 : (!req && !true) = false := by simp
      simp only [c3]
      simp +decide only [if_false, if_true]
      rw [readLen_len _ vs.length _ hlen hr1]
      have hr2 := Reader.rest_adv _ _ _ hr1
      simp only
      rw [checkLength_ok _ vs.length _ hr2
        (by have := encElems_length_ge env e vs hwt; simp only [List.length_append]; omega)]
      simp only [Int.toNat_natCast]
      rw [decElems_rt env rk hE e he vs ih hwt fuel [] _ t hfuel hr2]
      simp [Reader.adv_adv, Nat.add_assoc]

/-- fixed arrays `T x[N]` (always a LIST; `byte x[N]` is outside the supported language) -/
theorem rt_arr (env : Env) (rk : String → Nat) (vs : List Val)
    (ih : ∀ v ∈ vs, RT env rk v) (n : Nat) (e : Ty)
    (fuel tag : Nat) (req : Bool) (old : Val) (r : Reader) (t : Bytes)
    (htag : tag < 256) (he : TyOK env rk (env.length + 1) e) (hne8 : e ≠ .i8)
    (hn : vs.length = n) (hlen : n < 2^31) (hwt : WTs env e vs) (ho : Ready env (.arr n e) old)
    (hnt : req = false → NextTagGt tag t) (hfuel : needElems vs ≤ fuel)
    (h : r.rest = encVar env tag req (.arr n e) none (.list vs) ++ t) :
    decVar env (fuel+1) tag req (.arr n e) old r
      = (.ok (normVar env req (.arr n e) none (.list vs)),
          r.adv (encVar env tag req (.arr n e) none (.list vs)).length) := by
  subst hn
  obtain ⟨os, rfl, hos, hro⟩ := ready_arr ho
  rw [decVar_arr]
  rw [encVar] at h ⊢
  simp only [normVar]
  by_cases c1 : (!req && vs.isEmpty) = true
  · have hreq : req = false := by cases req <;> simp_all
    have hvs : vs = [] := by cases vs <;> simp_all
    subst hreq; subst hvs
    rw [if_pos c1] at h ⊢
    simp only [List.nil_append, List.length_nil, Reader.adv_zero] at h ⊢
    obtain ⟨ty', hm⟩ := skipToNoCheck_miss r tag (h ▸ hnt rfl)
    rw [hm]
    have : os = [] := List.length_eq_zero_iff.mp (by simpa using hos)
    subst this
    simp [normElems]
  · rw [if_neg c1] at h ⊢
    simp only [hne8, if_false, List.append_assoc] at h ⊢
    rw [skipToNoCheck_hit r tyLIST tag req _ (by decide) (by decide) htag h]
    have hr1 := r.rest_adv _ _ h
    have c3 : (!req && !true) = false := by simp
    simp only [c3]
    simp +decide only [if_false, if_true]
    rw [readLen_len _ vs.length _ (by omega) hr1]
    have hr2 := Reader.rest_adv _ _ _ hr1
    simp only
    have c4 : ¬ ((vs.length : Int) > (vs.length : Int)) := by omega
    rw [if_neg c4]
    have := decArr_rt env rk e he vs ih hwt fuel vs.length 0 [] os _ t rfl (by omega) (by omega) hro
      hfuel hr2
    simp only [List.nil_append] at this
    rw [this]
    simp [Reader.adv_adv, Nat.add_assoc]

/-- every slice/array value round-trips if its elements do -/
theorem rt_list (env : Env) (rk : String → Nat) (hE : EnvWF env rk) (vs : List Val)
    (ih : ∀ v ∈ vs, RT env rk v) : RT env rk (.list vs) := by
  intro fuel tag req ty dflt old r t htag hty hd hwt ho hnt hfuel h
  simp only [needVar] at hfuel
  obtain ⟨f, rfl⟩ : ∃ f, fuel = f + 1 := ⟨fuel - 1, by omega⟩
  cases ty <;> simp only [WT] at hwt
  case vec e =>
    have := dflt_none_of_nonatom hd (by rfl)
    subst this
    simp only [TyOK] at hty
    exact rt_vec env rk hE vs ih e f tag req old r t htag hty hwt.1 hwt.2 ho hnt (by omega) h
  case arr n e =>
    have := dflt_none_of_nonatom hd (by rfl)
    subst this
    simp only [TyOK] at hty
    exact rt_arr env rk vs ih n e f tag req old r t htag hty.2.2 hty.1 hwt.1 hwt.2.1 hwt.2.2 ho hnt
      (by omega) h

end Tars
