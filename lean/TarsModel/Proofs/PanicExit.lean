/-
  Helper lemmas for the panic-exit model (`Model/PanicExit.lean`). Core Lean only.
-/
import TarsModel.Model.PanicExit

namespace Tars.PanicExit

theorem run_contains_exit (body : List PStmt) : ∀ d, (run body d).contains .exit = body.contains .exit := by
  induction body with
  | nil =>
    intro d
    induction d with
    | zero => rfl
    | succ d ih => simp [run, List.replicate_succ]
  | cons s rest ih =>
    intro d
    cases s with
    | dumpStack => simpa [run] using ih d
    | flush => simpa [run] using ih d
    | exit => simp [run]
    | deferFlush => simpa [run] using ih (d + 1)

theorem flushed_nil_replicate : ∀ d, flushedBeforeExit (List.replicate d Effect.flush) = false := by
  intro d
  cases d with
  | zero => rfl
  | succ d =>
    simp only [List.replicate_succ, flushedBeforeExit]
    induction d with
    | zero => rfl
    | succ d ih => simp [List.replicate_succ]

theorem flushed_iff_plain (body : List PStmt) : ∀ d,
    flushedBeforeExit (run body d) = plainFlushBeforeExit body := by
  induction body with
  | nil => intro d; simpa [run, plainFlushBeforeExit] using flushed_nil_replicate d
  | cons s rest ih =>
    intro d
    cases s with
    | dumpStack => simpa [run, flushedBeforeExit, plainFlushBeforeExit] using ih d
    | flush =>
      simp only [run, flushedBeforeExit, plainFlushBeforeExit]
      exact run_contains_exit rest d
    | exit => simp [run, flushedBeforeExit, plainFlushBeforeExit]
    | deferFlush => simpa [run, plainFlushBeforeExit] using ih (d + 1)

end Tars.PanicExit
