/-
  Proofs/HealthProbe.lean — probing keeps happening: a blocked, connectable endpoint that is not
  waiting in the probe queue is queued by the next `checkStatus` that runs `tryTimeInterval` seconds
  after its `lastBlockTime`; the queue is consumed first-in first-out, one candidate per call.
-/
import TarsModel.Proofs.HealthFrame

namespace Tars.Health
open Tars

/-- the blocked branch of `checkActive` when the probe is due and the connection can be made -/
theorem checkActive_due (now : Int) (r : Rec) (hc : r.closed = false) (hs : r.status = false)
    (ht : (Consts.healthTryTimeInterval : Int) ≤ now - r.lastBlockTime) :
    (checkActive now true r).needCheck = true := by
  unfold checkActive
  have h : cmpOp Consts.healthOpTryTime (now - r.lastBlockTime) Consts.healthTryTimeInterval = true := by
    simp only [cmpOp, Consts.healthOpTryTime, if_true, decide_eq_true_eq]
    exact ht
  rw [if_neg (by simp [hc]), if_neg (by simp [hs]), if_pos h]
  rfl

theorem checkOne_queue_mono (conn : List Nat) (s : Mgr) (x ep : Nat) (h : ep ∈ s.queue) :
    ep ∈ (checkOne conn s x).queue := by
  rcases checkOne_cases conn s x with ⟨_, he⟩ | ⟨_, _, he⟩ | ⟨_, _, _, he⟩ | ⟨_, _, _, he⟩
  · rw [he]; exact h
  · rw [he]; exact h
  · rw [he]; exact h
  · rw [he]; exact List.mem_append.mpr (Or.inl h)

theorem foldl_checkOne_queue_mono (conn : List Nat) (l : List Nat) (s : Mgr) (ep : Nat) (h : ep ∈ s.queue) :
    ep ∈ (l.foldl (checkOne conn) s).queue := by
  induction l generalizing s with
  | nil => exact h
  | cons x xs ih => exact ih _ (checkOne_queue_mono conn s x ep h)

theorem checkOne_pend_other (conn : List Nat) (s : Mgr) (x ep : Nat) (hne : ep ≠ x) (h : ep ∉ s.pend) :
    ep ∉ (checkOne conn s x).pend := by
  rcases checkOne_cases conn s x with ⟨_, he⟩ | ⟨_, _, he⟩ | ⟨_, _, _, he⟩ | ⟨_, _, _, he⟩
  · rw [he]; exact h
  · rw [he]; exact h
  · rw [he]; exact h
  · rw [he]
    intro hm
    rcases List.mem_cons.mp hm with h1 | h1
    · exact hne h1
    · exact h h1

/-- `checkOne` on a blocked endpoint whose probe is due queues it -/
theorem checkOne_queues (conn : List Nat) (s : Mgr) (ep : Nat) (hh : s.has ep = true)
    (hc : (s.recs ep).closed = false) (hs : (s.recs ep).status = false) (hconn : conn.contains ep = true)
    (ht : (Consts.healthTryTimeInterval : Int) ≤ s.now - (s.recs ep).lastBlockTime) (hp : ep ∉ s.pend) :
    ep ∈ (checkOne conn s ep).queue := by
  have hn : (checkActive s.now (conn.contains ep) (s.recs ep)).needCheck = true := by
    rw [hconn]; exact checkActive_due _ _ hc hs ht
  rcases checkOne_cases conn s ep with ⟨h0, _⟩ | ⟨_, hft, _⟩ | ⟨_, _, h3, _⟩ | ⟨_, _, _, he⟩
  · rw [hh] at h0; cases h0
  · have := (checkActive_need _ _ _ hn).2.2.2.2
    rw [this] at hft; cases hft
  · rcases h3 with h3 | h3
    · rw [hn] at h3; cases h3
    · exact absurd h3 hp
  · rw [he]
    exact List.mem_append.mpr (Or.inr (List.mem_singleton.mpr rfl))

theorem foldl_checkOne_queues (conn : List Nat) (l : List Nat) (s : Mgr) (ep : Nat) (hmem : ep ∈ l)
    (hh : s.has ep = true) (hc : (s.recs ep).closed = false) (hs : (s.recs ep).status = false)
    (hconn : conn.contains ep = true)
    (ht : (Consts.healthTryTimeInterval : Int) ≤ s.now - (s.recs ep).lastBlockTime) (hp : ep ∉ s.pend) :
    ep ∈ (l.foldl (checkOne conn) s).queue := by
  induction l generalizing s with
  | nil => cases hmem
  | cons x xs ih =>
    rw [List.foldl_cons]
    by_cases hx : ep = x
    · subst hx
      exact foldl_checkOne_queue_mono conn xs _ ep (checkOne_queues conn s ep hh hc hs hconn ht hp)
    · have hm : ep ∈ xs := by
        rcases List.mem_cons.mp hmem with h1 | h1
        · exact absurd h1 hx
        · exact h1
      apply ih _ hm
      · rw [checkOne_has]; exact hh
      · rw [checkOne_recs_other conn s x ep hx]; exact hc
      · rw [checkOne_recs_other conn s x ep hx]; exact hs
      · rw [checkOne_recs_other conn s x ep hx, checkOne_now]; exact ht
      · exact checkOne_pend_other conn s x ep hx hp

/-- a blocked, connectable endpoint whose probe is due is in the probe queue after `checkStatus` -/
theorem checkStatus_queues (conn : List Nat) {s : Mgr} (hA : InvA s) (hT : InvT s) (ep : Nat)
    (hs : (s.recs ep).status = false) (hconn : conn.contains ep = true)
    (ht : (Consts.healthTryTimeInterval : Int) ≤ s.now - (s.recs ep).lastBlockTime) :
    ep ∈ (checkStatus conn s).queue := by
  have hh : s.has ep = true := by
    cases hb : s.has ep
    · have := hA.fresh ep hb
      rw [this] at hs
      simp [Rec.fresh] at hs
    · rfl
  by_cases hq : ep ∈ s.queue
  · exact foldl_checkOne_queue_mono conn s.reg s ep hq
  · exact foldl_checkOne_queues conn s.reg s ep (hA.hasReg ep hh) hh (hA.closed ep) hs hconn ht
      (fun hp => hq ((hT.pq ep).mp hp))

/-- a call takes the head of the probe queue, and nothing else -/
theorem start_queue (s : Mgr) (c : Nat) (so ow : Bool) (hr : s.reg ≠ []) : (start s c so ow).queue = s.queue.tail := by
  have key : ∀ (m : Mgr) (ep : Nat) (p : Bool), (startOn m ep p so ow).queue = m.queue := by
    intro m ep p
    unfold startOn
    repeat' split
    all_goals rfl
  unfold start selectAdapter
  split
  · rename_i hreg; exact absurd hreg hr
  · split
    · rename_i x q hq
      simp only [key, hq, List.tail_cons]
      unfold popProbe
      split <;> rfl
    · rename_i hq
      split
      · simp only [key, touch, hq, List.tail_nil]
      · simp only [key, touch, hq, List.tail_nil]

end Tars.Health
