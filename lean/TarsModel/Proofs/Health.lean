/-
  Proofs/Health.lean — helper lemmas and invariants for the failover model (property C15).
  Core Lean only.
-/
import TarsModel.Model.Health

namespace Tars.Health
open Tars

/-! ## small tools -/

@[simp] theorem upd_same {α} (f : Nat → α) (k : Nat) (v : α) : upd f k v k = v := by simp [upd]

theorem upd_apply {α} (f : Nat → α) (k x : Nat) (v : α) : upd f k v x = if x = k then v else f x := rfl

theorem getD_mod_mem {α} (l : List α) (c : Nat) (d : α) (h : l ≠ []) : l.getD (c % l.length) d ∈ l := by
  have hl : 0 < l.length := List.length_pos_iff.mpr h
  have hi : c % l.length < l.length := Nat.mod_lt _ hl
  simp only [List.getD, List.getElem?_eq_getElem hi, Option.getD_some]
  exact List.getElem_mem hi

/-- `P e pre` holds for every split `post ++ e :: pre` of a newest-first log -/
def AllSuffix (P : Event → List Event → Prop) : List Event → Prop
  | [] => True
  | e :: pre => P e pre ∧ AllSuffix P pre

theorem AllSuffix.split {P : Event → List Event → Prop} :
    ∀ {log post : List Event} {e : Event} {pre : List Event}, AllSuffix P log → log = post ++ e :: pre → P e pre := by
  intro log post
  induction post generalizing log with
  | nil => intro e pre h heq; subst heq; exact h.1
  | cons x xs ih => intro e pre h heq; subst heq; exact ih h.2 rfl

/-! ## `checkActive` -/

/-- case split over every test of `checkActive` (after `unfold checkActive at h ⊢`) -/
macro "ca_cases" r:ident now:ident conn:ident h:ident " with " lems:Lean.Parser.Tactic.simpLemma,* : tactic => `(tactic| (
  generalize h1 : cmpOp Consts.healthOpFailInterval ($now - ($r).lastSuccessTime) _ = a1 at $h:ident ⊢
  generalize h2 : cmpOp Consts.healthOpFainN _ _ = a2 at $h:ident ⊢
  generalize h3 : cmpOp Consts.healthOpCheckTime _ _ = a3 at $h:ident ⊢
  generalize h4 : cmpOp Consts.healthOpOverN _ _ = a4 at $h:ident ⊢
  generalize h5 : ratioCmp _ _ _ = a5 at $h:ident ⊢
  generalize h6 : cmpOp Consts.healthOpTryTime _ _ = a6 at $h:ident ⊢
  cases hc : ($r).closed <;> cases hs : ($r).status <;> cases a1 <;> cases a2 <;> cases a3 <;> cases a4 <;> cases a5 <;>
    cases a6 <;> cases $conn:ident <;> (try simp_all [cmpOp, $lems,*]) <;> (try omega)))

theorem checkActive_frame (now : Int) (conn : Bool) (r : Rec) :
    (checkActive now conn r).r.failCount = r.failCount ∧ (checkActive now conn r).r.lastFailCount = r.lastFailCount ∧
    (checkActive now conn r).r.sendCount = r.sendCount ∧ (checkActive now conn r).r.successCount = r.successCount ∧
    (checkActive now conn r).r.lastSuccessTime = r.lastSuccessTime ∧ (checkActive now conn r).r.lastCheckTime = r.lastCheckTime ∧
    (checkActive now conn r).r.closed = r.closed := by
  unfold checkActive
  repeat' split
  all_goals simp

/-- taken out (`firstTime`): the record was active, is now blocked with `lastBlockTime = now`, and
one of the two rules fired -/
theorem checkActive_first (now : Int) (conn : Bool) (r : Rec) (h : (checkActive now conn r).firstTime = true) :
    r.status = true ∧ (checkActive now conn r).r.status = false ∧ (checkActive now conn r).r.lastBlockTime = now ∧
    (checkActive now conn r).needCheck = false ∧
    ((Consts.healthFainN : Int) ≤ r.lastFailCount ∨ (Consts.healthOverN : Int) ≤ r.failCount) := by
  unfold checkActive at h ⊢
  ca_cases r now conn h with Consts.healthOpFainN, Consts.healthOpOverN

theorem checkActive_notfirst (now : Int) (conn : Bool) (r : Rec) (h : (checkActive now conn r).firstTime = false) :
    (checkActive now conn r).r.status = r.status := by
  unfold checkActive at h ⊢
  ca_cases r now conn h with Consts.healthOpFainN

/-- `checkActive` never turns a blocked record active -/
theorem checkActive_status_false (now : Int) (conn : Bool) (r : Rec) (h : r.status = false) :
    (checkActive now conn r).r.status = false ∧ (checkActive now conn r).firstTime = false := by
  unfold checkActive
  repeat' split
  all_goals simp_all

/-- probe candidate (`needCheck`): the record is blocked, at least `tryTimeInterval` seconds after
`lastBlockTime`, the connection could be established; `lastBlockTime` becomes `now` -/
theorem checkActive_need (now : Int) (conn : Bool) (r : Rec) (h : (checkActive now conn r).needCheck = true) :
    r.status = false ∧ (checkActive now conn r).r.lastBlockTime = now ∧
    (Consts.healthTryTimeInterval : Int) ≤ now - r.lastBlockTime ∧ conn = true ∧ (checkActive now conn r).firstTime = false := by
  unfold checkActive at h ⊢
  ca_cases r now conn h with Consts.healthOpTryTime

theorem checkActive_lbt (now : Int) (conn : Bool) (r : Rec) :
    (checkActive now conn r).r.lastBlockTime = r.lastBlockTime ∨ (checkActive now conn r).r.lastBlockTime = now := by
  unfold checkActive
  repeat' split
  all_goals simp

/-- the first rule: an active, open record with `fainN` consecutive failures and no success for
`failInterval` seconds is taken out -/
theorem checkActive_live (now : Int) (conn : Bool) (r : Rec) (hc : r.closed = false) (hs : r.status = true)
    (ht : (Consts.healthFailInterval : Int) ≤ now - r.lastSuccessTime) (hf : (Consts.healthFainN : Int) ≤ r.lastFailCount) :
    (checkActive now conn r).firstTime = true := by
  unfold checkActive
  have h : (cmpOp Consts.healthOpFailInterval (now - r.lastSuccessTime) Consts.healthFailInterval
      && cmpOp Consts.healthOpFainN r.lastFailCount Consts.healthFainN) = true := by
    simp only [cmpOp, Consts.healthOpFainN, Consts.healthOpFailInterval, if_true, Bool.and_eq_true, decide_eq_true_eq]
    exact ⟨ht, hf⟩
  rw [if_neg (by simp [hc]), if_pos hs, if_pos h]

/-! ## observables of a log: one lemma per event constructor -/

section logs
variable (r : List Event) (e ep : Nat) (t : Int) (p : Bool)

@[simp] theorem failsSince_picked : failsSince (.picked e p t :: r) ep = failsSince r ep := rfl
@[simp] theorem failsSince_none : failsSince (.noEndpoint t :: r) ep = failsSince r ep := rfl
@[simp] theorem failsSince_ok : failsSince (.ok e t :: r) ep = failsSince r ep := rfl
@[simp] theorem failsSince_fail : failsSince (.fail e t :: r) ep = (if e = ep then 1 else 0) + failsSince r ep := rfl
@[simp] theorem failsSince_blocked : failsSince (.blocked e t :: r) ep = failsSince r ep := rfl
@[simp] theorem failsSince_grant : failsSince (.grant e t :: r) ep = failsSince r ep := rfl
@[simp] theorem failsSince_reinst : failsSince (.reinstated e t :: r) ep = if e = ep then 0 else failsSince r ep := rfl

@[simp] theorem streak_picked : streak (.picked e p t :: r) ep = streak r ep := rfl
@[simp] theorem streak_none : streak (.noEndpoint t :: r) ep = streak r ep := rfl
@[simp] theorem streak_ok : streak (.ok e t :: r) ep = if e = ep then 0 else streak r ep := rfl
@[simp] theorem streak_fail : streak (.fail e t :: r) ep = (if e = ep then 1 else 0) + streak r ep := rfl
@[simp] theorem streak_blocked : streak (.blocked e t :: r) ep = streak r ep := rfl
@[simp] theorem streak_grant : streak (.grant e t :: r) ep = streak r ep := rfl
@[simp] theorem streak_reinst : streak (.reinstated e t :: r) ep = streak r ep := rfl

@[simp] theorem lastOk_picked : lastOk (.picked e p t :: r) ep = lastOk r ep := rfl
@[simp] theorem lastOk_none : lastOk (.noEndpoint t :: r) ep = lastOk r ep := rfl
@[simp] theorem lastOk_ok : lastOk (.ok e t :: r) ep = if e = ep then some t else lastOk r ep := rfl
@[simp] theorem lastOk_fail : lastOk (.fail e t :: r) ep = lastOk r ep := rfl
@[simp] theorem lastOk_blocked : lastOk (.blocked e t :: r) ep = lastOk r ep := rfl
@[simp] theorem lastOk_grant : lastOk (.grant e t :: r) ep = lastOk r ep := rfl
@[simp] theorem lastOk_reinst : lastOk (.reinstated e t :: r) ep = lastOk r ep := rfl

@[simp] theorem lastGrant_picked : lastGrant (.picked e p t :: r) ep = lastGrant r ep := rfl
@[simp] theorem lastGrant_none : lastGrant (.noEndpoint t :: r) ep = lastGrant r ep := rfl
@[simp] theorem lastGrant_ok : lastGrant (.ok e t :: r) ep = lastGrant r ep := rfl
@[simp] theorem lastGrant_fail : lastGrant (.fail e t :: r) ep = lastGrant r ep := rfl
@[simp] theorem lastGrant_blocked : lastGrant (.blocked e t :: r) ep = lastGrant r ep := rfl
@[simp] theorem lastGrant_grant : lastGrant (.grant e t :: r) ep = if e = ep then some t else lastGrant r ep := rfl
@[simp] theorem lastGrant_reinst : lastGrant (.reinstated e t :: r) ep = lastGrant r ep := rfl

@[simp] theorem lastProbe_probe : lastProbe (.picked e true t :: r) ep = if e = ep then some t else lastProbe r ep := rfl
@[simp] theorem lastProbe_pick : lastProbe (.picked e false t :: r) ep = lastProbe r ep := rfl
@[simp] theorem lastProbe_none : lastProbe (.noEndpoint t :: r) ep = lastProbe r ep := rfl
@[simp] theorem lastProbe_ok : lastProbe (.ok e t :: r) ep = lastProbe r ep := rfl
@[simp] theorem lastProbe_fail : lastProbe (.fail e t :: r) ep = lastProbe r ep := rfl
@[simp] theorem lastProbe_blocked : lastProbe (.blocked e t :: r) ep = lastProbe r ep := rfl
@[simp] theorem lastProbe_grant : lastProbe (.grant e t :: r) ep = lastProbe r ep := rfl
@[simp] theorem lastProbe_reinst : lastProbe (.reinstated e t :: r) ep = lastProbe r ep := rfl

@[simp] theorem prevProbe_probe : prevProbe (.picked e true t :: r) ep = if e = ep then lastProbe r ep else prevProbe r ep := rfl
@[simp] theorem prevProbe_pick : prevProbe (.picked e false t :: r) ep = prevProbe r ep := rfl
@[simp] theorem prevProbe_none : prevProbe (.noEndpoint t :: r) ep = prevProbe r ep := rfl
@[simp] theorem prevProbe_ok : prevProbe (.ok e t :: r) ep = prevProbe r ep := rfl
@[simp] theorem prevProbe_fail : prevProbe (.fail e t :: r) ep = prevProbe r ep := rfl
@[simp] theorem prevProbe_blocked : prevProbe (.blocked e t :: r) ep = prevProbe r ep := rfl
@[simp] theorem prevProbe_grant : prevProbe (.grant e t :: r) ep = prevProbe r ep := rfl
@[simp] theorem prevProbe_reinst : prevProbe (.reinstated e t :: r) ep = prevProbe r ep := rfl

@[simp] theorem grants_picked : grants (.picked e p t :: r) ep = grants r ep := rfl
@[simp] theorem grants_none : grants (.noEndpoint t :: r) ep = grants r ep := rfl
@[simp] theorem grants_ok : grants (.ok e t :: r) ep = grants r ep := rfl
@[simp] theorem grants_fail : grants (.fail e t :: r) ep = grants r ep := rfl
@[simp] theorem grants_blocked : grants (.blocked e t :: r) ep = grants r ep := rfl
@[simp] theorem grants_grant : grants (.grant e t :: r) ep = (if e = ep then 1 else 0) + grants r ep := rfl
@[simp] theorem grants_reinst : grants (.reinstated e t :: r) ep = grants r ep := rfl

@[simp] theorem probes_probe : probes (.picked e true t :: r) ep = (if e = ep then 1 else 0) + probes r ep := rfl
@[simp] theorem probes_pick : probes (.picked e false t :: r) ep = probes r ep := rfl
@[simp] theorem probes_none : probes (.noEndpoint t :: r) ep = probes r ep := rfl
@[simp] theorem probes_ok : probes (.ok e t :: r) ep = probes r ep := rfl
@[simp] theorem probes_fail : probes (.fail e t :: r) ep = probes r ep := rfl
@[simp] theorem probes_blocked : probes (.blocked e t :: r) ep = probes r ep := rfl
@[simp] theorem probes_grant : probes (.grant e t :: r) ep = probes r ep := rfl
@[simp] theorem probes_reinst : probes (.reinstated e t :: r) ep = probes r ep := rfl

@[simp] theorem failsEver_picked : failsEver (.picked e p t :: r) ep = failsEver r ep := rfl
@[simp] theorem failsEver_none : failsEver (.noEndpoint t :: r) ep = failsEver r ep := rfl
@[simp] theorem failsEver_ok : failsEver (.ok e t :: r) ep = failsEver r ep := rfl
@[simp] theorem failsEver_fail : failsEver (.fail e t :: r) ep = (if e = ep then 1 else 0) + failsEver r ep := rfl
@[simp] theorem failsEver_blocked : failsEver (.blocked e t :: r) ep = failsEver r ep := rfl
@[simp] theorem failsEver_grant : failsEver (.grant e t :: r) ep = failsEver r ep := rfl
@[simp] theorem failsEver_reinst : failsEver (.reinstated e t :: r) ep = failsEver r ep := rfl
end logs

theorem failsSince_le_failsEver (log : List Event) (ep : Nat) : failsSince log ep ≤ failsEver log ep := by
  induction log with
  | nil => simp [failsSince, failsEver]
  | cons e r ih =>
    cases e <;> simp <;> (try split) <;> omega

theorem prevProbe_some_lastProbe (log : List Event) (ep : Nat) (t : Int) (h : prevProbe log ep = some t) :
    ∃ p, lastProbe log ep = some p := by
  induction log with
  | nil => simp [prevProbe] at h
  | cons e r ih =>
    cases e with
    | picked e' pr t' =>
      cases pr with
      | true =>
        simp only [prevProbe_probe, lastProbe_probe] at h ⊢
        split
        · exact ⟨_, rfl⟩
        · rename_i hne; simp [hne] at h; exact ih h
      | false => simpa using ih (by simpa using h)
    | _ => simpa using ih (by simpa using h)

end Tars.Health
