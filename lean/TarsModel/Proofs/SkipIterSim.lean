import TarsModel.Proofs.SkipIterSpec

/-!
  The iterative skip (`Model/SkipIter.lean`) computes what the recursive family computes: one
  `switch` step (`skipOne`) against `skipField`, then the simulation of the two loops against
  `unwind`, with a potential that bounds the number of loop steps.
-/
namespace Tars
namespace SkipIter
open Consts

/-! ### unfolding the two loops -/

theorem fields_succ (F ty : Nat) (stack : List Int) (r : Reader) :
    skipFieldsF (F+1) ty stack r
      = skipNextF F (skipOne ty stack r).1.1 (skipOne ty stack r).1.2 (skipOne ty stack r).2 := by
  rw [skipFieldsF]

theorem next_nil (F : Nat) (r : Reader) : skipNextF (F+1) none [] r = (.ok (), r) := by
  rw [skipNextF]

theorem next_some (F : Nat) (e : Err) (stack : List Int) (r : Reader) :
    skipNextF (F+1) (some e) stack r =
      if stack.dropWhile (· = skipPending) = [] then (.error e, r)
      else skipNextF F none (stack.dropWhile (· = skipPending)) r := by
  rw [skipNextF]

theorem next_pending_err (F : Nat) (rest : List Int) (r r' : Reader) (e : Err)
    (h : readHead r = (.error e, r')) :
    skipNextF (F+1) none (skipPending :: rest) r = skipNextF F (some e) (skipPending :: rest) r' := by
  rw [skipNextF]; simp [h]

theorem next_pending_end (F : Nat) (rest : List Int) (r r1 : Reader) (tg : Nat)
    (h : readHead r = (.ok (tyStructEnd, tg), r1)) :
    skipNextF (F+1) none (skipPending :: rest) r = skipNextF F none rest r1 := by
  rw [skipNextF]; simp [h]

theorem next_pending_field (F : Nat) (rest : List Int) (r r1 : Reader) (ty tg : Nat)
    (h : readHead r = (.ok (ty, tg), r1)) (hne : ty ≠ tyStructEnd) :
    skipNextF (F+1) none (skipPending :: rest) r = skipFieldsF F ty (skipPending :: rest) r1 := by
  rw [skipNextF]; simp [h, hne]

theorem next_count_done (F : Nat) (top : Int) (rest : List Int) (r : Reader)
    (hp : top ≠ skipPending) (h0 : top ≤ 0) :
    skipNextF (F+1) none (top :: rest) r = skipNextF F none rest r := by
  rw [skipNextF]; simp [hp, h0]

theorem next_count_err (F : Nat) (top : Int) (rest : List Int) (r r' : Reader) (e : Err)
    (hp : top ≠ skipPending) (h0 : 0 < top) (h : readHead r = (.error e, r')) :
    skipNextF (F+1) none (top :: rest) r = skipNextF F (some e) rest r' := by
  have : ¬ top ≤ 0 := by omega
  rw [skipNextF]; simp [hp, this, h]

theorem next_count_field (F : Nat) (top : Int) (rest : List Int) (r r1 : Reader) (ty tg : Nat)
    (hp : top ≠ skipPending) (h0 : 0 < top) (h : readHead r = (.ok (ty, tg), r1)) :
    skipNextF (F+1) none (top :: rest) r = skipFieldsF F ty ((top - 1) :: rest) r1 := by
  have : ¬ top ≤ 0 := by omega
  rw [skipNextF]; simp [hp, this, h]

/-! ### one step of the `switch` -/

/-- for every wire type that is not a container, `skipOne` is `skipField` with one unit of fuel:
    same bytes consumed, same error, stack untouched -/
theorem skipOne_leaf (ty : Nat) (stack : List Int) (r : Reader)
    (h1 : ty ≠ tyMAP) (h2 : ty ≠ tyLIST) (h3 : ty ≠ tyStructBegin) :
    skipOne ty stack r = ((errOf (skipField 1 ty r).1, stack), (skipField 1 ty r).2) := by
  by_cases c0 : ty = tyBYTE
  · subst c0; simp +decide [skipOne, skipField, errOf, skip_fst]
  by_cases c1 : ty = tySHORT
  · subst c1; simp +decide [skipOne, skipField, errOf, skip_fst]
  by_cases c2 : ty = tyINT
  · subst c2; simp +decide [skipOne, skipField, errOf, skip_fst]
  by_cases c3 : ty = tyLONG
  · subst c3; simp +decide [skipOne, skipField, errOf, skip_fst]
  by_cases c4 : ty = tyFLOAT
  · subst c4; simp +decide [skipOne, skipField, errOf, skip_fst]
  by_cases c5 : ty = tyDOUBLE
  · subst c5; simp +decide [skipOne, skipField, errOf, skip_fst]
  by_cases c6 : ty = tySTRING1
  · subst c6
    rcases h : readByte r with ⟨_ | d, r1⟩ <;> simp +decide [skipOne, skipField, h, errOf, skip_fst]
  by_cases c7 : ty = tySTRING4
  · subst c7
    rcases h : bReadU 4 r with ⟨_ | d, r1⟩ <;> simp +decide [skipOne, skipField, h, errOf, skip_fst]
  by_cases c8 : ty = tySimpleList
  · subst c8
    rcases h : readHead r with ⟨e | ⟨tyCur, tg⟩, r1⟩
    · cases hd : r.data[r.pos]? with
      | none => simp +decide [skipOne, skipField, skipSimpleListM, h, hd, errOf]
      | some d =>
        by_cases hb : d.val % 16 = tyBYTE <;>
          simp +decide [skipOne, skipField, skipSimpleListM, h, hd, hb, errOf]
    · by_cases hb : tyCur = tyBYTE
      · rcases hl : readLen r1 with ⟨_ | len, r2⟩
        · simp +decide [skipOne, skipField, skipSimpleListM, h, hb, hl, errOf]
        · simp +decide [skipOne, skipField, skipSimpleListM, h, hb, hl, errOf]
          rw [skip_spec]
      · simp +decide [skipOne, skipField, skipSimpleListM, h, hb, errOf]
  by_cases c9 : ty = tyStructEnd
  · subst c9; simp +decide [skipOne, skipField, errOf]
  by_cases c10 : ty = tyZeroTag
  · subst c10; simp +decide [skipOne, skipField, errOf]
  simp [skipOne, skipField, errOf, c0, c1, c2, c3, c4, c5, c6, c7, c8, c9, c10, h1, h2, h3]

theorem skipOne_list_err (stack : List Int) (r r' : Reader) (e : Err) (h : readLen r = (.error e, r')) :
    skipOne tyLIST stack r = ((some e, stack), r') := by simp +decide [skipOne, h]
theorem skipOne_list_ok (stack : List Int) (r r1 : Reader) (len : Int) (h : readLen r = (.ok len, r1)) :
    skipOne tyLIST stack r = ((none, if len > 0 then len :: stack else stack), r1) := by
  simp +decide [skipOne, h]
theorem skipOne_map_err (stack : List Int) (r r' : Reader) (e : Err) (h : readLen r = (.error e, r')) :
    skipOne tyMAP stack r = ((some e, stack), r') := by simp +decide [skipOne, h]
theorem skipOne_map_ok (stack : List Int) (r r1 : Reader) (len : Int) (h : readLen r = (.ok len, r1)) :
    skipOne tyMAP stack r
      = ((none, if wrapS 32 (len * 2) > 0 then wrapS 32 (len * 2) :: stack else stack), r1) := by
  simp +decide [skipOne, h]
theorem skipOne_struct (stack : List Int) (r : Reader) :
    skipOne tyStructBegin stack r = ((none, skipPending :: stack), r) := by simp +decide [skipOne]

theorem ne_pending_of_nonneg {n : Int} (h : 0 ≤ n) : n ≠ skipPending := by
  simp only [skipPending, skipPendingMarker]; omega

/-- the reader only moves forward; at most one entry is pushed, none when the step fails -/
theorem skipOne_basic (ty : Nat) (stack : List Int) (r : Reader) :
    r.Le (skipOne ty stack r).2 ∧ (skipOne ty stack r).1.2.length ≤ stack.length + 1 ∧
    (∀ e, (skipOne ty stack r).1.1 = some e → (skipOne ty stack r).1.2 = stack) := by
  by_cases hM : ty = tyMAP
  · subst hM
    have hl := readLen_le r
    rcases h : readLen r with ⟨e | len, r1⟩
    · rw [h] at hl; rw [skipOne_map_err stack r r1 e h]; exact ⟨hl, by simp, fun _ _ => rfl⟩
    · rw [h] at hl; rw [skipOne_map_ok stack r r1 len h]
      refine ⟨hl, ?_, fun e he => by cases he⟩
      simp only; split <;> simp
  by_cases hL : ty = tyLIST
  · subst hL
    have hl := readLen_le r
    rcases h : readLen r with ⟨e | len, r1⟩
    · rw [h] at hl; rw [skipOne_list_err stack r r1 e h]; exact ⟨hl, by simp, fun _ _ => rfl⟩
    · rw [h] at hl; rw [skipOne_list_ok stack r r1 len h]
      refine ⟨hl, ?_, fun e he => by cases he⟩
      simp only; split <;> simp
  by_cases hS : ty = tyStructBegin
  · subst hS; rw [skipOne_struct]; exact ⟨Reader.Le.refl r, by simp, fun e he => by cases he⟩
  rw [skipOne_leaf ty stack r hM hL hS]
  exact ⟨(skip_family_le 1).1 ty r, by simp, fun _ _ => rfl⟩

/-- one `switch` step followed by the recursive meaning of the new stack is the recursive skip of
    the field followed by the recursive meaning of the old stack -/
theorem skipOne_spec (K ty : Nat) (stack : List Int) (r : Reader) (hK : Big K r) :
    unwind K (skipOne ty stack r).1.1 (skipOne ty stack r).1.2 (skipOne ty stack r).2
      = after K (skipField K ty r) stack := by
  by_cases hM : ty = tyMAP
  · subst hM
    have hl := readLen_le r
    rcases h : readLen r with ⟨e | len, r1⟩
    · rw [skipOne_map_err stack r r1 e h, SF_map_err hK h, after_err]
    · rw [h] at hl
      rw [skipOne_map_ok stack r r1 len h, SF_map_ok hK h]
      simp only
      by_cases hn : wrapS 32 (len * 2) > 0
      · rw [if_pos hn, unwind_count K none _ stack r1 (ne_pending_of_nonneg (by omega))]
      · rw [if_neg hn, SE_done (hK.of_le hl) (by omega), after_ok]
  by_cases hL : ty = tyLIST
  · subst hL
    have hl := readLen_le r
    rcases h : readLen r with ⟨e | len, r1⟩
    · rw [skipOne_list_err stack r r1 e h, SF_list_err hK h, after_err]
    · rw [h] at hl
      rw [skipOne_list_ok stack r r1 len h, SF_list_ok hK h]
      simp only
      by_cases hn : len > 0
      · rw [if_pos hn, unwind_count K none _ stack r1 (ne_pending_of_nonneg (by omega))]
      · rw [if_neg hn, SE_done (hK.of_le hl) (by omega), after_ok]
  by_cases hS : ty = tyStructBegin
  · subst hS; rw [skipOne_struct, SF_struct hK, unwind_pending]
  rw [skipOne_leaf ty stack r hM hL hS, SF_leaf hK hM hL hS]
  rfl

/-! ### the simulation -/

/-- potential of the outer loop: an upper bound on the loop steps still to come -/
def phiF (stack : List Int) (r : Reader) : Nat := 4 * r.remaining + 2 * stack.length + 4

/-- potential of the inner loop -/
def phiN : Option Err → List Int → Reader → Nat
  | none, stack, r => 4 * r.remaining + 2 * stack.length + 1
  | some _, stack, r => 4 * r.remaining + 2 * (stack.dropWhile (· = skipPending)).length + 2

theorem dropWhile_len (stack : List Int) :
    (stack.dropWhile (· = skipPending)).length ≤ stack.length := by
  induction stack with
  | nil => simp
  | cons a t ih =>
    simp only [List.dropWhile]
    split
    · simp only [List.length_cons]; omega
    · simp

/-- **simulation**: with enough loop fuel, running the loops from a state is the recursive skip of
    the current field followed by the recursive meaning of the stack -/
theorem sim (K : Nat) : ∀ F : Nat,
    (∀ ty stack r, Big K r → phiF stack r ≤ F →
      skipFieldsF F ty stack r = after K (skipField K ty r) stack) ∧
    (∀ err stack r, Big K r → phiN err stack r ≤ F →
      skipNextF F err stack r = unwind K err stack r) := by
  intro F
  induction F with
  | zero =>
    refine ⟨fun ty stack r _ h => by unfold phiF at h; omega, fun err stack r _ h => ?_⟩
    cases err <;> simp only [phiN] at h <;> omega
  | succ F ih =>
    obtain ⟨ihF, ihN⟩ := ih
    refine ⟨fun ty stack r hK h => ?_, fun err stack r hK h => ?_⟩
    · obtain ⟨hle, hlen, hsame⟩ := skipOne_basic ty stack r
      have hrem := hle.remaining
      rw [fields_succ, ihN _ _ _ (hK.of_le hle), skipOne_spec K ty stack r hK]
      unfold phiF at h
      cases herr : (skipOne ty stack r).1.1 with
      | none => simp only [phiN]; omega
      | some e =>
        simp only [phiN]
        rw [hsame e herr]
        have := dropWhile_len stack
        omega
    · cases err with
      | some e =>
        simp only [phiN] at h
        rw [next_some, unwind_some]
        by_cases hd : stack.dropWhile (· = skipPending) = []
        · rw [if_pos hd, if_pos hd]
        · rw [if_neg hd, if_neg hd, ihN none _ r hK (by simp only [phiN]; omega)]
      | none =>
        cases stack with
        | nil => rw [next_nil]; rfl
        | cons top rest =>
          simp only [phiN, List.length_cons] at h
          by_cases hp : top = skipPending
          · subst hp
            rw [unwind_pending]
            rcases hh : readHead r with ⟨e | ⟨ty, tg⟩, r1⟩
            · have hle := (readHead_err hh).1
              have hrem := hle.remaining
              rw [next_pending_err F rest r r1 e hh, ihN _ _ _ (hK.of_le hle), unwind_pending_err,
                SS_err hK hh, after_err]
              simp only [phiN, List.dropWhile, decide_true]
              have := dropWhile_len rest
              omega
            · have hlt := (readHead_ok hh).1
              have hrem := hlt.remaining
              by_cases hend : ty = tyStructEnd
              · subst hend
                have hse : skipField K tyStructEnd r1 = (.ok (), r1) := by
                  obtain ⟨K', rfl, _⟩ := (hK.of_le hlt.le).pred
                  exact Skip.skipField_structEnd K' r1
                rw [next_pending_end F rest r r1 tg hh, ihN _ _ _ (hK.of_le hlt.le),
                  SS_field_ok hK hh hse, if_pos rfl, after_ok]
                simp only [phiN]; omega
              · rw [next_pending_field F rest r r1 ty tg hh hend, ihF _ _ _ (hK.of_le hlt.le)]
                · rcases hsf : skipField K ty r1 with ⟨e | _, r2⟩
                  · rw [SS_field_err hK hh hsf, after_err, after_err, unwind_pending_err]
                  · rw [SS_field_ok hK hh hsf, if_neg hend, after_ok, unwind_pending]
                · unfold phiF; simp only [List.length_cons]; omega
          · rw [unwind_count K none top rest r hp]
            by_cases h0 : top ≤ 0
            · rw [next_count_done F top rest r hp h0, ihN _ _ _ hK, SE_done hK h0, after_ok]
              simp only [phiN]; omega
            · have h0' : 0 < top := by omega
              rcases hh : readHead r with ⟨e | ⟨ty, tg⟩, r1⟩
              · have hle := (readHead_err hh).1
                have hrem := hle.remaining
                rw [next_count_err F top rest r r1 e hp h0' hh, ihN _ _ _ (hK.of_le hle),
                  SE_err hK h0' hh, after_err]
                simp only [phiN]
                have := dropWhile_len rest
                omega
              · have hlt := (readHead_ok hh).1
                have hrem := hlt.remaining
                rw [next_count_field F top rest r r1 ty tg hp h0' hh, ihF _ _ _ (hK.of_le hlt.le),
                  SE_field hK h0' hh]
                · unfold after
                  rw [unwind_count K _ (top - 1) rest _ (ne_pending_of_nonneg (by omega))]
                  rfl
                · unfold phiF; simp only [List.length_cons]; omega

/-! ### the two entry points -/

theorem big_fuel (r : Reader) : Big r.fuel r := by unfold Big Reader.fuel; omega

/-- `4·remaining + 4` loop steps always suffice; `Reader.iterFuel = 6·size + 16` is more -/
theorem phiF_le_iterFuel (r : Reader) : phiF [] r ≤ r.iterFuel := by
  have := remaining_le_size r
  unfold phiF Reader.iterFuel; simp only [List.length_nil]; omega

/-- the iterative `skipField` computes exactly what the recursive `skipField` computes, on every
    input -/
theorem skipFieldIter_eq (ty : Nat) (r : Reader) : skipFieldIter ty r = skipField r.fuel ty r := by
  unfold skipFieldIter
  rw [((sim r.fuel r.iterFuel).1 ty [] r (big_fuel r) (phiF_le_iterFuel r)), unwind_nil_after]

/-- the iterative `SkipToStructEnd` computes exactly what the recursive one computes -/
theorem skipToStructEndIter_eq (r : Reader) : skipToStructEndIter r = skipToStructEnd r.fuel r := by
  unfold skipToStructEndIter
  rw [((sim r.fuel r.iterFuel).1 tyStructBegin [] r (big_fuel r) (phiF_le_iterFuel r)),
    unwind_nil_after, SF_struct (big_fuel r)]

/-- more generally, for any loop fuel of at least `4·remaining + 4` -/
theorem skipFieldsF_eq (F ty : Nat) (r : Reader) (hF : 4 * r.remaining + 4 ≤ F) :
    skipFieldsF F ty [] r = skipField r.fuel ty r := by
  rw [((sim r.fuel F).1 ty [] r (big_fuel r) (by unfold phiF; simpa using hF)), unwind_nil_after]

/-! ### the explicit stack stays small -/

/-- the stack never holds more entries than it held plus the bytes still unread (plus one in the
    outer loop: `StructBegin` pushes without reading) — for every amount of fuel -/
theorem stack_bound : ∀ F : Nat,
    (∀ ty stack r, maxStackFields F ty stack r ≤ stack.length + r.remaining + 1) ∧
    (∀ err stack r, maxStackNext F err stack r ≤ stack.length + r.remaining) := by
  intro F
  induction F with
  | zero =>
    refine ⟨fun ty stack r => ?_, fun err stack r => ?_⟩
    · rw [maxStackFields]; omega
    · rw [maxStackNext]; omega
  | succ F ih =>
    obtain ⟨ihF, ihN⟩ := ih
    refine ⟨fun ty stack r => ?_, fun err stack r => ?_⟩
    · obtain ⟨hle, hlen, _⟩ := skipOne_basic ty stack r
      have hrem := hle.remaining
      rw [maxStackFields]
      rcases hs : skipOne ty stack r with ⟨⟨err, st⟩, r1⟩
      rw [hs] at hlen hrem
      have := ihN err st r1
      simp only at hlen hrem ⊢
      omega
    · cases err with
      | some e =>
        rw [maxStackNext]
        have := ihN none (stack.dropWhile (· = skipPending)) r
        have := dropWhile_len stack
        split <;> omega
      | none =>
        cases stack with
        | nil => rw [maxStackNext]; omega
        | cons top rest =>
          rw [maxStackNext]
          simp only [List.length_cons]
          by_cases hp : top = skipPending
          · rw [if_pos hp]
            rcases hh : readHead r with ⟨e | ⟨ty, tg⟩, r1⟩
            · have hrem := (readHead_err hh).1.remaining
              have := ihN (some e) (top :: rest) r1
              simp only [List.length_cons] at this ⊢
              omega
            · have hrem := (readHead_ok hh).1.remaining
              simp only
              split
              · have := ihN none rest r1; omega
              · have := ihF ty (top :: rest) r1
                simp only [List.length_cons] at this
                omega
          · rw [if_neg hp]
            by_cases h0 : top ≤ 0
            · rw [if_pos h0]; have := ihN none rest r; omega
            · rw [if_neg h0]
              rcases hh : readHead r with ⟨e | ⟨ty, tg⟩, r1⟩
              · have hrem := (readHead_err hh).1.remaining
                have := ihN (some e) rest r1
                simp only
                omega
              · have hrem := (readHead_ok hh).1.remaining
                have := ihF ty ((top - 1) :: rest) r1
                simp only [List.length_cons] at this ⊢
                omega

end SkipIter
end Tars
