/-
  The size-rolling writer (`Model/LogWriter.lean`) keeps everything it is handed: helper lemmas
  for `Props/C20.lean`. Core Lean only.

  Invariant (`Inv s fs W`): the directory is exactly the list `fs` of distinct inodes (newest
  first), the handle is open on the newest, and `dropped ++ (files oldest → newest) = W`, the
  sequence of all writes. The rename loop is given in closed form (`shifted`), the rotation as a
  whole moves every file up by one, overwrites the last slot and starts a fresh `<name>.log`.
-/
import TarsModel.Model.LogWriter

namespace Tars.LogWriter

/-- closed form of the rename loop on the directory -/
def shifted (m : Nat) (g : Nat → Option Nat) (j : Nat) : Option Nat :=
  if j > m then g j
  else if j = 0 then (if m = 0 then g 0 else none)
  else if (g (j - 1)).isSome then g (j - 1) else if j < m then none else g j

theorem shifted_step (m : Nat) (g : Nat → Option Nat) :
    shifted m (match g m with
               | none => g
               | some src => upd (upd g (m + 1) (some src)) m none) = shifted (m + 1) g := by
  funext j
  cases hg : g m with
  | none =>
    simp only [shifted]
    by_cases h1 : j > m + 1
    · have : j > m := by omega
      simp [h1, this]
    · by_cases h2 : j = m + 1
      · subst h2
        simp [hg]
      · have h3 : ¬ j > m := by omega
        by_cases h0 : j = 0
        · subst h0
          by_cases hm : m = 0
          · subst hm; simp [hg]
          · simp [hm]
        · by_cases h4 : j = m
          · subst h4
            simp [h0, hg]
            intro _; omega
          · have h5 : j < m := by omega
            have h6 : j < m + 1 := by omega
            simp [h1, h3, h0, h5, h6]
  | some src =>
    simp only [shifted, upd]
    by_cases h1 : j > m + 1
    · have : j > m := by omega
      have a : j ≠ m := by omega
      have b : j ≠ m + 1 := by omega
      simp [h1, this, a, b]
    · by_cases h2 : j = m + 1
      · subst h2
        simp [hg]
      · have h3 : ¬ j > m := by omega
        by_cases h0 : j = 0
        · subst h0
          by_cases hm : m = 0
          · subst hm; simp
          · simp [hm]
        · by_cases h4 : j = m
          · subst h4
            have a : j - 1 ≠ j := by omega
            have b : j - 1 ≠ j + 1 := by omega
            simp [h0, a, b]
            intro _; omega
          · have h5 : j < m := by omega
            have h6 : j < m + 1 := by omega
            have a : j - 1 ≠ m := by omega
            have b : j - 1 ≠ m + 1 := by omega
            simp [h1, h3, h0, h5, h6, a, b]


theorem renameStep_frame {β : Type} (s : State β) (j : Nat) :
    (renameStep s j).content = s.content ∧ (renameStep s j).nextIno = s.nextIno ∧
    (renameStep s j).cur = s.cur ∧ (renameStep s j).currSize = s.currSize ∧
    (renameStep s j).openTime = s.openTime ∧ (renameStep s j).written = s.written := by
  unfold renameStep
  cases s.names j <;> simp

theorem renameStep_names {β : Type} (s : State β) (j : Nat) :
    (renameStep s j).names = (match s.names j with
                              | none => s.names
                              | some src => upd (upd s.names (j + 1) (some src)) j none) := by
  unfold renameStep
  cases s.names j <;> simp

theorem renameStep_dropped {β : Type} (s : State β) (j : Nat) :
    (renameStep s j).dropped =
      s.dropped ++ (if (s.names j).isSome then fileOf s (s.names (j + 1)) else []) := by
  unfold renameStep fileOf
  cases s.names j <;> simp

theorem rotateFrom_frame {β : Type} : ∀ (m : Nat) (s : State β),
    (rotateFrom m s).content = s.content ∧ (rotateFrom m s).nextIno = s.nextIno ∧
    (rotateFrom m s).cur = s.cur ∧ (rotateFrom m s).currSize = s.currSize ∧
    (rotateFrom m s).openTime = s.openTime ∧ (rotateFrom m s).written = s.written := by
  intro m
  induction m with
  | zero => intro s; simp [rotateFrom]
  | succ m ih =>
    intro s
    simp only [rotateFrom]
    obtain ⟨a1, a2, a3, a4, a5, a6⟩ := ih (renameStep s m)
    obtain ⟨b1, b2, b3, b4, b5, b6⟩ := renameStep_frame s m
    exact ⟨a1.trans b1, a2.trans b2, a3.trans b3, a4.trans b4, a5.trans b5, a6.trans b6⟩

theorem rotateFrom_names {β : Type} : ∀ (m : Nat) (s : State β),
    (rotateFrom m s).names = shifted m s.names := by
  intro m
  induction m with
  | zero =>
    intro s
    funext j
    simp only [rotateFrom, shifted]
    by_cases h : j > 0
    · simp [h]
    · have : j = 0 := by omega
      subst this; simp
  | succ m ih =>
    intro s
    simp only [rotateFrom]
    rw [ih, renameStep_names, shifted_step]

theorem rotateFrom_dropped {β : Type} : ∀ (m : Nat) (s : State β),
    (rotateFrom m s).dropped =
      s.dropped ++ (if m ≥ 1 ∧ (s.names (m - 1)).isSome then fileOf s (s.names m) else []) := by
  intro m
  induction m with
  | zero => intro s; simp [rotateFrom]
  | succ m ih =>
    intro s
    simp only [rotateFrom]
    rw [ih, renameStep_dropped, renameStep_names]
    have hnone : (match s.names m with
                  | none => s.names
                  | some src => upd (upd s.names (m + 1) (some src)) m none) m = none := by
      cases hg : s.names m with
      | none => simpa using hg
      | some src => simp [upd]
    have hfile : fileOf (renameStep s m) none = ([] : List β) := rfl
    simp only [hnone, hfile, ite_self, List.append_nil]
    simp


variable {β : Type}

def sumLen (len : β → Nat) (l : List β) : Nat := (l.map len).sum

theorem sumLen_append (len : β → Nat) (a b : List β) :
    sumLen len (a ++ b) = sumLen len a + sumLen len b := by
  simp [sumLen]

/-- the files `fs` (newest first) read oldest first -/
def contentsOf (s : State β) (fs : List Nat) : List β := (fs.reverse.map s.content).flatten

/-- `w.currFile` when the newest file is the head of `fs` -/
def curOf : List Nat → Handle
  | [] => .nil
  | c :: _ => .opened c

/-- `fs`: the inodes behind `<name>.log, <name>1.log, …` (newest first); `W`: everything written -/
structure Inv (len : β → Nat) (num size : Nat) (s : State β) (fs : List Nat) (W : List β) : Prop where
  namesEq : ∀ j, s.names j = fs[j]?
  nodup : fs.Nodup
  fresh : ∀ i ∈ fs, i < s.nextIno
  empty : ∀ i, s.nextIno ≤ i → s.content i = []
  lenLe : fs.length ≤ slots num
  cur : s.cur = curOf fs
  conserve : s.dropped ++ contentsOf s fs = W
  budget : (fs.length - 1) * size + s.currSize ≤ sumLen len W
  dropBound : s.dropped = [] ∨ num * size ≤ sumLen len W

theorem inv_init (len : β → Nat) (num size : Nat) : Inv len num size (init : State β) [] [] := by
  constructor <;> simp [init, contentsOf, slots, sumLen, curOf]

theorem reOpen_inv {len : β → Nat} {num size : Nat} {s : State β} {fs : List Nat} {W : List β}
    (h : Inv len num size s fs W) (env : Env) (hok : env.openOk = true) :
    ∃ c rest, Inv len num size (reOpen s env) (c :: rest) W ∧ (fs ≠ [] → c :: rest = fs) ∧
      (reOpen s env).currSize = s.currSize ∧ (reOpen s env).written = s.written := by
  unfold reOpen
  simp only [hok, if_true]
  cases fs with
  | nil =>
    have h0 : s.names 0 = none := by simpa using h.namesEq 0
    simp only [h0]
    refine ⟨s.nextIno, [], ?_, by simp, trivial, trivial⟩
    exact {
      namesEq := by
        intro j
        cases j with
        | zero => simp [upd]
        | succ j => simp [upd]; simpa using h.namesEq (j + 1)
      nodup := by simp
      fresh := by simp
      empty := fun i hi => h.empty i (by simp at hi; omega)
      lenLe := by simp [slots]; omega
      cur := rfl
      conserve := by
        have := h.conserve
        simp only [contentsOf] at this ⊢
        simpa [h.empty s.nextIno (Nat.le_refl _)] using this
      budget := by simpa using h.budget
      dropBound := h.dropBound }
  | cons c rest =>
    have h0 : s.names 0 = some c := by simpa using h.namesEq 0
    simp only [h0]
    refine ⟨c, rest, ?_, fun _ => rfl, trivial, trivial⟩
    exact { h with cur := rfl }

theorem contentsOf_upd_head (s : State β) (c : Nat) (rest : List Nat) (v : β)
    (hnd : (c :: rest).Nodup) :
    (rest.reverse.map (upd s.content c (s.content c ++ [v]))) = rest.reverse.map s.content := by
  apply List.map_congr_left
  intro x hx
  have hx' : x ∈ rest := by simpa using hx
  have : x ≠ c := by
    intro e; subst e
    exact (List.nodup_cons.mp hnd).1 hx'
  simp [upd, this]

theorem append_inv {len : β → Nat} {num size : Nat} {s : State β} {c : Nat} {rest : List Nat}
    {W : List β} (h : Inv len num size s (c :: rest) W) (v : β) :
    Inv len num size { s with content := upd s.content c (s.content c ++ [v]),
                              currSize := s.currSize + len v } (c :: rest) (W ++ [v]) :=
  { h with
    empty := by
      intro i hi
      have hi' : s.nextIno ≤ i := hi
      have hc : c < s.nextIno := h.fresh c (by simp)
      have : i ≠ c := by omega
      simp only [upd, this, if_false]
      exact h.empty i hi'
    conserve := by
      have := h.conserve
      simp only [contentsOf, List.reverse_cons, List.map_append, List.map_cons, List.map_nil,
        List.flatten_append, List.flatten_cons, List.flatten_nil, List.append_nil] at this ⊢
      rw [contentsOf_upd_head s c rest v h.nodup]
      simp only [upd, if_true]
      rw [← this]
      simp [List.append_assoc]
    budget := by
      have := h.budget
      rw [sumLen_append]
      simp only [sumLen, List.map_cons, List.map_nil, List.sum_cons, List.sum_nil] at this ⊢
      omega
    dropBound := by
      rcases h.dropBound with hd | hd
      · exact Or.inl hd
      · refine Or.inr ?_
        rw [sumLen_append]; omega }

theorem shifted_list (fs : List Nat) (m : Nat) (hl : fs.length ≤ m + 1) (j : Nat) :
    shifted m (fun k => fs[k]?) (j + 1) = (fs.take m)[j]? := by
  rw [List.getElem?_take]
  unfold shifted
  by_cases h1 : j + 1 > m
  · have h2 : ¬ j < m := by omega
    have h3 : fs[j + 1]? = none := List.getElem?_eq_none (by omega)
    simp [h1, h2, h3]
  · have h2 : j < m := by omega
    simp only [h1, if_false, Nat.add_one_ne_zero, Nat.add_sub_cancel, h2, if_true]
    cases hj : fs[j]? with
    | some x => simp
    | none =>
      have hlen : fs.length ≤ j := by
        rcases List.getElem?_eq_none_iff.mp hj with h
        exact h
      have h3 : fs[j + 1]? = none := List.getElem?_eq_none (by omega)
      simp [h3]

theorem contentsOf_append (s : State β) (a b : List Nat) :
    contentsOf s (a ++ b) = contentsOf s b ++ contentsOf s a := by
  simp [contentsOf]

theorem drop_top (fs : List Nat) (m : Nat) (hl : fs.length ≤ m + 1) :
    fs.drop m = (fs[m]?).toList := by
  cases hm : fs[m]? with
  | none =>
    have : fs.length ≤ m := List.getElem?_eq_none_iff.mp hm
    simp [List.drop_eq_nil_of_le this]
  | some o =>
    obtain ⟨hlt, ho⟩ := List.getElem?_eq_some_iff.mp hm
    rw [List.drop_eq_getElem_cons hlt, ho, List.drop_eq_nil_of_le (by omega)]
    rfl

theorem rotate_inv {len : β → Nat} {num size : Nat} {s : State β} {c : Nat} {rest : List Nat}
    {W : List β} (h : Inv len num size s (c :: rest) W) (env : Env) (hok : env.openOk = true)
    (hsize : s.currSize ≥ size) :
    ∃ c' rest', Inv len num size
      (reOpen (rotateFrom (num - 1) { s with cur := s.cur.close, currSize := 0 }) env)
      (c' :: rest') W := by
  obtain ⟨f1, f2, f3, f4, f5, f6⟩ :=
    rotateFrom_frame (num - 1) { s with cur := s.cur.close, currSize := 0 }
  have fn := rotateFrom_names (num - 1) { s with cur := s.cur.close, currSize := 0 }
  have fd := rotateFrom_dropped (num - 1) { s with cur := s.cur.close, currSize := 0 }
  simp only at f1 f2 f3 f4 f5 f6 fn fd
  have hnames : s.names = fun k => (c :: rest)[k]? := funext h.namesEq
  by_cases hnum : num ≤ 1
  · -- no rename loop: <name>.log is closed and reopened, the same file goes on growing
    have hm : num - 1 = 0 := by omega
    rw [hm] at fn fd
    have h0 : (rotateFrom (num - 1) { s with cur := s.cur.close, currSize := 0 }).names 0 = some c := by
      rw [hm, fn]; simp [shifted, hnames]
    refine ⟨c, rest, ?_⟩
    unfold reOpen
    simp only [hok, if_true, h0]
    rw [hm] at f1 f2 f4 ⊢
    exact {
      namesEq := by intro j; simp only [fn]; simp [shifted, hnames]; intro hj; subst hj; rfl
      nodup := h.nodup
      fresh := by intro i hi; simp only [f2]; exact h.fresh i hi
      empty := by intro i hi; simp only [f1]; simp only [f2] at hi; exact h.empty i hi
      lenLe := h.lenLe
      cur := rfl
      conserve := by
        have := h.conserve
        simp only [contentsOf, f1, fd] at this ⊢
        simpa using this
      budget := by
        have := h.budget
        simp only [f4]
        simp only [List.length_cons, Nat.add_sub_cancel] at this ⊢
        omega
      dropBound := by
        simp only [fd]
        simpa using h.dropBound }
  · -- num ≥ 2: every file moves up by one, the one in the last slot is overwritten
    have hm1 : 1 ≤ num - 1 := by omega
    have hlen : (c :: rest).length ≤ (num - 1) + 1 := by
      have := h.lenLe; simp only [slots] at this; omega
    have h0 : (rotateFrom (num - 1) { s with cur := s.cur.close, currSize := 0 }).names 0 = none := by
      rw [fn]
      have : num - 1 ≠ 0 := by omega
      simp [shifted, this]
    refine ⟨s.nextIno, (c :: rest).take (num - 1), ?_⟩
    unfold reOpen
    simp only [hok, if_true, h0, f2]
    have hdrop : (rotateFrom (num - 1) { s with cur := s.cur.close, currSize := 0 }).dropped
        = s.dropped ++ contentsOf s ((c :: rest).drop (num - 1)) := by
      rw [fd, drop_top (c :: rest) (num - 1) hlen, hnames]
      simp only
      cases htop : (c :: rest)[num - 1]? with
      | none => simp [fileOf, contentsOf]
      | some o =>
        obtain ⟨hlt, _⟩ := List.getElem?_eq_some_iff.mp htop
        have hprev : ((c :: rest)[num - 1 - 1]?).isSome = true := by
          rw [List.getElem?_eq_getElem (by omega)]; rfl
        simp [fileOf, contentsOf, hprev, hm1]
    exact {
      namesEq := by
        intro j
        cases j with
        | zero => simp [upd]
        | succ j =>
          simp only [upd, Nat.add_one_ne_zero, if_false]
          rw [fn, hnames, shifted_list (c :: rest) (num - 1) hlen j]
          simp
      nodup := by
        refine List.nodup_cons.mpr ⟨?_, (List.take_sublist _ _).nodup h.nodup⟩
        intro hmem
        have := h.fresh _ (List.mem_of_mem_take hmem)
        omega
      fresh := by
        intro i hi
        show i < s.nextIno + 1
        rcases List.mem_cons.mp hi with hi | hi
        · omega
        · have := h.fresh i (List.mem_of_mem_take hi); omega
      empty := by
        intro i hi
        have hi' : s.nextIno + 1 ≤ i := hi
        simp only [f1]
        exact h.empty i (by omega)
      lenLe := by
        simp only [List.length_cons, List.length_take, slots]
        omega
      cur := rfl
      conserve := by
        rw [hdrop]
        have hc := h.conserve
        have hsplit : contentsOf s (c :: rest)
            = contentsOf s ((c :: rest).drop (num - 1)) ++ contentsOf s ((c :: rest).take (num - 1)) := by
          rw [← contentsOf_append, List.take_append_drop]
        have hnew : s.content s.nextIno = [] := h.empty _ (Nat.le_refl _)
        rw [← hc, hsplit]
        simp only [contentsOf, f1, List.reverse_cons, List.map_append, List.map_cons, List.map_nil,
          List.flatten_append, List.flatten_cons, List.flatten_nil, hnew, List.append_nil,
          List.append_assoc]
      budget := by
        have hb := h.budget
        simp only [f4, List.length_cons, List.length_take, Nat.add_sub_cancel, Nat.add_zero] at hb ⊢
        have h1 : min (num - 1) (rest.length + 1) ≤ rest.length + 1 := Nat.min_le_right _ _
        have h2 : min (num - 1) (rest.length + 1) * size ≤ (rest.length + 1) * size :=
          Nat.mul_le_mul_right _ h1
        rw [Nat.succ_mul] at h2
        omega
      dropBound := by
        rw [hdrop, drop_top (c :: rest) (num - 1) hlen]
        cases htop : (c :: rest)[num - 1]? with
        | none => simpa [contentsOf] using h.dropBound
        | some o =>
          obtain ⟨hlt, _⟩ := List.getElem?_eq_some_iff.mp htop
          refine Or.inr ?_
          have hb := h.budget
          have hl : (c :: rest).length = num := by omega
          rw [hl] at hb
          have : num = (num - 1) + 1 := by omega
          rw [this, Nat.succ_mul]
          omega }

theorem reOpen_written (s : State β) (env : Env) : (reOpen s env).written = s.written := by
  unfold reOpen
  simp only
  split
  · split <;> rfl
  · rfl

theorem writeTail_written (len : β → Nat) (reopen : Bool) (num size : Nat) (s1 : State β)
    (env : Env) (v : β) : (writeTail len reopen num size s1 env v).written = s1.written := by
  unfold writeTail
  split
  · rfl
  · split
    · split
      · rw [reOpen_written, (rotateFrom_frame _ _).2.2.2.2.2]
      · rw [(rotateFrom_frame _ _).2.2.2.2.2]
    · rfl
  · simp only
    split
    · split
      · rw [reOpen_written, (rotateFrom_frame _ _).2.2.2.2.2]
      · rw [(rotateFrom_frame _ _).2.2.2.2.2]
    · rfl

theorem write_written (len : β → Nat) (reopen : Bool) (num size : Nat) (s : State β)
    (env : Env) (v : β) : (write len reopen num size s env v).written = s.written ++ [v] := by
  unfold write
  simp only
  rw [writeTail_written]
  split
  · rw [reOpen_written]
  · rfl

theorem writeTail_inv {len : β → Nat} {num size : Nat} {s1 : State β} {c : Nat} {rest : List Nat}
    {W : List β} (h : Inv len num size s1 (c :: rest) W) (env : Env) (hok : env.openOk = true)
    (v : β) : ∃ fs', Inv len num size (writeTail len true num size s1 env v) fs' (W ++ [v]) := by
  unfold writeTail
  have hcur : s1.cur = Handle.opened c := h.cur
  simp only [hcur, if_true]
  have h2 := append_inv h v
  split
  · rename_i hsz
    obtain ⟨c', rest', hr⟩ := rotate_inv h2 env hok hsz
    simp only [hcur] at hr
    exact ⟨_, hr⟩
  · simp only [hcur] at h2
    exact ⟨_, h2⟩

theorem write_inv {len : β → Nat} {num size : Nat} {s : State β} {fs : List Nat} {W : List β}
    (h : Inv len num size s fs W) (env : Env) (hok : env.openOk = true) (v : β) :
    ∃ fs', Inv len num size (write len true num size s env v) fs' (W ++ [v]) := by
  unfold write
  simp only
  have h0 : Inv len num size { s with written := s.written ++ [v] } fs W := { h with }
  split
  · obtain ⟨c, rest, hinv, _, _, _⟩ := reOpen_inv h0 env hok
    exact writeTail_inv hinv env hok v
  · rename_i hcond
    cases fs with
    | nil =>
      exfalso
      apply hcond
      exact Or.inl h.cur
    | cons c rest => exact writeTail_inv h0 env hok v

theorem writes_inv {len : β → Nat} {num size : Nat} :
    ∀ (ws : List (Env × β)) (s : State β) (fs : List Nat) (W : List β),
      Inv len num size s fs W → (∀ e ∈ ws, e.1.openOk = true) →
      ∃ fs', Inv len num size (writes len true num size s ws) fs' (W ++ ws.map (·.2)) ∧
        (writes len true num size s ws).written = s.written ++ ws.map (·.2) := by
  intro ws
  induction ws with
  | nil => intro s fs W h _; exact ⟨fs, by simpa [writes] using h, by simp [writes]⟩
  | cons e rest ih =>
    intro s fs W h hok
    obtain ⟨env, v⟩ := e
    simp only [writes]
    obtain ⟨fs1, h1⟩ := write_inv h env (hok (env, v) (by simp)) v
    obtain ⟨fs2, h2, hw⟩ := ih _ fs1 (W ++ [v]) h1 (fun e he => hok e (by simp [he]))
    refine ⟨fs2, by simpa [List.append_assoc] using h2, ?_⟩
    rw [hw, write_written]
    simp [List.append_assoc]

theorem contentsOf_toList (s : State β) (o : Option Nat) : contentsOf s o.toList = fileOf s o := by
  cases o <;> simp [contentsOf, fileOf]

theorem concatRoll_take (s : State β) (fs : List Nat) (hn : ∀ j, s.names j = fs[j]?) :
    ∀ k, concatRoll s k = contentsOf s (fs.take k) := by
  intro k
  induction k with
  | zero => simp [concatRoll, contentsOf]
  | succ k ih =>
    simp only [concatRoll, fileAt, hn k, ih]
    rw [List.take_add_one, contentsOf_append, contentsOf_toList]

theorem concatRoll_inv {len : β → Nat} {num size : Nat} {s : State β} {fs : List Nat} {W : List β}
    (h : Inv len num size s fs W) : s.dropped ++ concatRoll s (slots num) = W := by
  rw [concatRoll_take s fs h.namesEq, List.take_of_length_le h.lenLe]
  exact h.conserve

end Tars.LogWriter
