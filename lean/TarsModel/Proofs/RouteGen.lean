/-
  Helper lemmas for C08: the request-id counter (`genRequestID`) under arbitrary interleavings of
  its atomic steps.

  `rank c` is the position of the counter value `c` on the cycle 1, 2, …, maxInt32, minInt32, …, -1, 0
  (rank 1 = 0, rank 0 = 2^32 - 1).  `AddInt32` advances the rank by one (wrapping at 0 ↦ 1), the
  successful CAS jumps from rank `P = maxInt32 - 1` back to rank 0.  For every logged id `v` of age
  `a` (number of ids issued after it) the invariant `J v a ctr` says: either `v` was issued in the
  current "epoch" (since the last return to rank 0), and then exactly `rank ctr - rank v` ids followed
  it, or it is older, and then at least `rank ctr + (P - rank v)` ids followed it.  Hence the id that
  will be issued next (rank `rank ctr + 1`) differs from every logged id of age < P - 1.
-/
import TarsModel.Model.Route

set_option linter.unusedVariables false

namespace Tars.Route

/-- 2^32 -/
def M32 : Int := 2 * (maxInt32 + 1)
/-- the period of the sequential id sequence: 2^31 - 2 -/
def period : Int := maxInt32 - 1

def InRange (c : Int) : Prop := minInt32 ≤ c ∧ c ≤ maxInt32

def rank (c : Int) : Int := if 1 ≤ c then c - 1 else c + M32 - 1
def zed (c : Int) : Int := if c = 0 then 1 else 0

def J (v : Int) (a : Nat) (ctr : Int) : Prop :=
  (rank v ≤ rank ctr ∧ rank ctr ≤ a + rank v + zed ctr) ∨
  (rank v ≤ period ∧ rank ctr + period - rank v ≤ a + zed ctr) ∨
  (period < rank v ∧ rank ctr ≤ a + zed ctr)

theorem inRange_cas {c : Int} (h : InRange c) : InRange (casStep c) := by
  unfold InRange casStep at *
  simp only [minInt32, maxInt32, Consts.callMaxInt32, Consts.callCasNew] at *
  omega

theorem inRange_add {c : Int} (h : InRange c) : InRange (addStep c) := by
  unfold InRange addStep wrap32 at *
  simp only [minInt32, maxInt32, Consts.callMaxInt32, Consts.callAddDelta] at *
  omega

theorem J_cas {v : Int} {a : Nat} {c : Int} (hc : InRange c) (hv : InRange v) (h : J v a c) :
    J v a (casStep c) := by
  unfold J rank zed casStep InRange period M32 at *
  simp only [minInt32, maxInt32, Consts.callMaxInt32, Consts.callCasNew] at *
  omega

theorem J_add_issue {v : Int} {a : Nat} {c : Int} (hc : InRange c) (hv : InRange v)
    (hz : addStep c ≠ 0) (h : J v a c) : J v (a + 1) (addStep c) := by
  unfold J rank zed addStep wrap32 InRange period M32 at *
  simp only [minInt32, maxInt32, Consts.callMaxInt32, Consts.callAddDelta] at *
  omega

theorem J_add_zero {v : Int} {a : Nat} {c : Int} (hc : InRange c) (hv : InRange v)
    (hz : addStep c = 0) (h : J v a c) : J v a (addStep c) := by
  unfold J rank zed addStep wrap32 InRange period M32 at *
  simp only [minInt32, maxInt32, Consts.callMaxInt32, Consts.callAddDelta] at *
  omega

theorem J_new {c : Int} (hc : InRange c) : J (addStep c) 0 (addStep c) := by
  unfold J rank zed addStep wrap32 InRange period M32 at *
  simp only [minInt32, maxInt32, Consts.callMaxInt32, Consts.callAddDelta] at *
  omega

/-- the next id differs from every logged id that fewer than `period - 1` ids followed -/
theorem J_fresh {v : Int} {a : Nat} {c : Int} (hc : InRange c) (hv : InRange v)
    (hz : addStep c ≠ 0) (h : J v a c) (ha : (a : Int) + 1 < period) : v ≠ addStep c := by
  unfold J rank zed addStep wrap32 InRange period M32 at *
  simp only [minInt32, maxInt32, Consts.callMaxInt32, Consts.callAddDelta] at *
  omega

/-! ### the log of issued ids -/

structure GenInv (g : Gen) : Prop where
  range : InRange g.ctr
  vals : ∀ v ∈ g.issued, v ≠ 0 ∧ InRange v
  ages : ∀ (a : Nat) (v : Int), g.issued[a]? = some v → J v a g.ctr
  distinct : ∀ (i j : Nat) (x y : Int), i < j → ((j - i : Nat) : Int) < period →
    g.issued[i]? = some x → g.issued[j]? = some y → x ≠ y

theorem genInv_start {c : Int} (h : InRange c) : GenInv ⟨c, []⟩ := by
  constructor <;> simp [h]

theorem issues_iff {v : Int} : issues v = true ↔ v ≠ 0 := by
  simp [issues, Consts.callZeroSkip]

theorem genInv_cas {g : Gen} (h : GenInv g) : GenInv g.cas := by
  refine ⟨inRange_cas h.range, h.vals, ?_, h.distinct⟩
  intro a v hv
  exact J_cas h.range (h.vals v (List.mem_of_getElem? hv)).2 (h.ages a v hv)

theorem genInv_add {g : Gen} (h : GenInv g) : GenInv g.add := by
  unfold Gen.add
  by_cases hz : issues (addStep g.ctr) = true
  · simp only [hz, ↓reduceIte]
    have hz' := issues_iff.mp hz
    constructor
    · exact inRange_add h.range
    · intro v hv
      rcases List.mem_cons.mp hv with rfl | hv
      · exact ⟨hz', inRange_add h.range⟩
      · exact h.vals v hv
    · intro a v hv
      cases a with
      | zero => simp at hv; subst hv; exact J_new h.range
      | succ k =>
        simp at hv
        exact J_add_issue h.range (h.vals v (List.mem_of_getElem? hv)).2 hz' (h.ages k v hv)
    · intro i j x y hij hd hx hy
      cases j with
      | zero => omega
      | succ j' =>
        simp at hy
        cases i with
        | zero =>
          simp at hx; subst hx
          have hJ := h.ages j' y hy
          have := J_fresh h.range (h.vals y (List.mem_of_getElem? hy)).2 hz' hJ (by omega)
          exact fun h' => this h'.symm
        | succ i' =>
          simp at hx
          exact h.distinct i' j' x y (by omega) (by omega) hx hy
  · simp only [hz, Bool.false_eq_true, ↓reduceIte]
    have hz' : addStep g.ctr = 0 := by
      by_cases h0 : addStep g.ctr = 0
      · exact h0
      · exact absurd (issues_iff.mpr h0) hz
    refine ⟨inRange_add h.range, h.vals, ?_, h.distinct⟩
    intro a v hv
    exact J_add_zero h.range (h.vals v (List.mem_of_getElem? hv)).2 hz' (h.ages a v hv)

theorem genInv_step {g : Gen} (h : GenInv g) (a : GenAct) : GenInv (g.step a) := by
  cases a
  · exact genInv_cas h
  · exact genInv_add h

theorem genInv_run {g : Gen} (h : GenInv g) (as : List GenAct) : GenInv (g.run as) := by
  induction as generalizing g with
  | nil => exact h
  | cons a as ih => exact ih (genInv_step h a)

/-! ### tightness: the sequential id sequence has period exactly `period` -/

/-- `c + n, c + n - 1, …, c + 1` -/
def descend (c : Int) : Nat → List Int
  | 0 => []
  | n + 1 => (c + (n + 1 : Nat)) :: descend c n

theorem descend_length (c : Int) (n : Nat) : (descend c n).length = n := by
  induction n with
  | zero => rfl
  | succ n ih => simp [descend, ih]

theorem descend_last (c : Int) (n : Nat) (rest : List Int) : (descend c (n + 1) ++ rest)[n]? = some (c + 1) := by
  induction n with
  | zero => simp [descend]
  | succ n ih => simp only [descend] at *; rw [List.cons_append, List.getElem?_cons_succ]; exact ih

/-- `n` uninterrupted executions of `genRequestID` (CAS, one add) -/
def seqActs : Nat → List GenAct
  | 0 => []
  | n + 1 => GenAct.cas :: GenAct.add :: seqActs n

theorem seq_run (n : Nat) : ∀ (c : Int) (old : List Int), 1 ≤ c → c + n ≤ maxInt32 →
    Gen.run ⟨c, old⟩ (seqActs n) = ⟨c + n, descend c n ++ old⟩ := by
  induction n with
  | zero => intro c old _ _; simp [seqActs, Gen.run, descend]
  | succ n ih =>
    intro c old h1 h2
    have hcas : casStep c = c := by
      unfold casStep; simp only [maxInt32, Consts.callMaxInt32] at *; split <;> omega
    have hadd : addStep c = c + 1 := by
      unfold addStep wrap32; simp only [maxInt32, Consts.callMaxInt32, Consts.callAddDelta] at *; split <;> omega
    have hiss : issues (c + 1) = true := issues_iff.mpr (by omega)
    simp only [seqActs, Gen.run, Gen.step, Gen.cas, Gen.add, hcas, hadd, hiss, ↓reduceIte]
    rw [ih (c + 1) ((c + 1) :: old) (by omega) (by omega)]
    congr 1
    · omega
    · clear ih
      induction n with
      | zero => simp [descend]
      | succ m ihm =>
        have := ihm (by omega)
        simp only [descend] at *
        rw [List.cons_append, List.cons_append, this]
        congr 1
        omega

end Tars.Route
