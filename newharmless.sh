#!/bin/bash
# newharmless.sh <name> "<files>" "<style hint>": worktree + prompt for a behaviour-preserving change
set -eu
name=$1; files=$2; style=$3
mkdir -p /tmp/seed
git -C /repo worktree remove --force /tmp/seed/$name 2>/dev/null || true
rm -rf /tmp/seed/$name /tmp/seed/$name.out
git -C /repo worktree add -q --detach /tmp/seed/$name HEAD
python3 - "$name" "$files" "$style" <<'PY'
import sys
name, files, style = sys.argv[1:4]
t = open('/verif/seeded/harmless_template.txt').read()
open('/tmp/seed/%s.prompt.txt' % name, 'w').write(t.replace('@NAME@', name).replace('@FILES@', files).replace('@STYLE@', style))
PY
echo /tmp/seed/$name.prompt.txt
