#!/usr/bin/env python3
"""Writes seeded/<name>/meta.json from the independent agent's meta, the confirmation log and our check's output."""
import json, os, re, sys
root = "/verif/seeded"
for name in sorted(os.listdir(root)):
    d = os.path.join(root, name)
    if not os.path.isdir(d):
        continue
    am = {}
    try:
        am = json.load(open(os.path.join(d, "meta.agent.json")))
    except Exception:
        pass
    if name.startswith("H"):
        # behaviour-preserving change: every anchored check is expected to stay OK
        vo = open(os.path.join(d, "vcheck.out")).read() if os.path.exists(os.path.join(d, "vcheck.out")) else ""
        oks = [l.split()[1].split("=")[1] for l in vo.splitlines() if l.startswith("OK ")]
        viol = [l for l in vo.splitlines() if l.startswith("VIOLATION") or l.startswith("CHECK-ERROR")]
        meta = {"kind": "harmless", "summary": am.get("summary"), "edits": am.get("edits"), "files_changed": am.get("files_changed"),
                "produced_by": "independent sub-agent asked for a behaviour-preserving clean-up of the named files",
                "our_checks": {"ok": oks, "alarms": viol, "false_alarm": bool(viol)}}
        json.dump(meta, open(os.path.join(d, "meta.json"), "w"), indent=1)
        print(name, "harmless: OK", oks, "alarms", len(viol))
        continue
    conf = open(os.path.join(d, "confirm.log")).read() if os.path.exists(os.path.join(d, "confirm.log")) else ""
    vo = open(os.path.join(d, "vcheck.out")).read() if os.path.exists(os.path.join(d, "vcheck.out")) else ""
    m = re.search(r"pristine_demo_rc=(\d+) build_rc=(\d+) existing_tests_rc=(\d+) changed_demo_rc=(\d+)", conf)
    facts = dict(zip(["demo_passes_without_change", "builds_with_change", "existing_tests_pass_with_change", "demo_fails_with_change"],
                     [m.group(1) == "0", m.group(2) == "0", m.group(3) == "0", m.group(4) != "0"])) if m else {}
    viol = [l for l in vo.splitlines() if l.startswith("VIOLATION")]
    meta = {
        "property": am.get("property", name[:3]),
        "summary": am.get("summary"),
        "needs_to_manifest": am.get("needs_to_manifest"),
        "files_changed": am.get("files_changed"),
        "produced_by": "independent sub-agent given only the property text and a scratch worktree",
        "confirmed_by_us": facts,
        "confirmation_commands": [l[2:] for l in conf.splitlines() if l.startswith("$ ")],
        "our_check": {"command": "VERIF_REPO=<worktree with patch.diff applied> ./vcheck %s" % am.get("property", name[:3]),
                      "exit": (re.search(r"vcheck_rc=(\d+)", vo) or [None, None])[1],
                      "violation_lines": viol,
                      "detected": bool(viol),
                      "detected_with_concrete_replay": any("no-failing-input-found" not in l for l in viol)},
    }
    json.dump(meta, open(os.path.join(d, "meta.json"), "w"), indent=1)
    print(name, meta["our_check"]["detected"], meta["our_check"]["detected_with_concrete_replay"], facts)
